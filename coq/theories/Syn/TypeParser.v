(** Executable model of [auto_type] on one string (synth/syntax/type_helper.py:
    [__matching__], [__next_token__], the stack machine of [auto_type]) and of
    the documented type notation.

    Characters are ASCII code points ([N]); a string is a [list N].  Non-ASCII
    input is OUTSIDE the modelled domain (Python's [str.isalpha], [isdigit] and
    [strip] are modelled on code points below 128 only).

    The model has a switch [fx]:
      [fx = false]  the code as pinned (no initial strip; an infix operator
                    token swallows a following quote character);
      [fx = true]   the code after proposed_fixes/C15-1.diff ([text = el.strip()]
                    and the quote ends an operator token).
    All theorems are about [fx = true]; [fx = false] is kept as the faithful
    [_pinned] model used by the known-finding classifier. *)
From Coq Require Import NArith List Bool Arith Lia.
From PS Require Import Base.ListX Base.Ty.
Import ListNotations.
Local Open Scope N_scope.

Definition str := list N.

(** ** Character classes (ASCII) *)
Definition is_alpha (c : N) : bool := ((65 <=? c) && (c <=? 90)) || ((97 <=? c) && (c <=? 122)).
Definition is_digit (c : N) : bool := (48 <=? c) && (c <=? 57).
(* str.strip() without argument: \t \n \v \f \r, FS GS RS US, space *)
Definition is_space (c : N) : bool := ((9 <=? c) && (c <=? 13)) || ((28 <=? c) && (c <=? 32)).
Definition c_space : N := 32.
Definition c_quote : N := 39.
Definition c_lpar : N := 40.
Definition c_rpar : N := 41.
Definition c_lbr : N := 91.
Definition c_rbr : N := 93.
Definition c_us : N := 95.
Definition c_bar : N := 124.
(* text[i].isalpha() or text[i].isdigit() or text[i] == "_" *)
Definition is_namechar (c : N) : bool := is_alpha c || is_digit c || (c =? c_us).
(* the characters that end an operator token: alpha or one of __SPECIAL_TOKENS
   (" ()" as pinned, " ()'" after the fix) *)
Definition ends_op (fx : bool) (c : N) : bool :=
  is_alpha c || (c =? c_space) || (c =? c_lpar) || (c =? c_rpar) || (fx && (c =? c_quote)).

Definition str_eqb : str -> str -> bool := list_eqb N.eqb.

Fixpoint lstrip (s : str) : str :=
  match s with
  | [] => []
  | c :: r => if is_space c then lstrip r else s
  end.
Definition rstrip (s : str) : str := rev (lstrip (rev s)).
Definition strip (s : str) : str := rstrip (lstrip s).

Fixpoint span (p : N -> bool) (s : str) : str * str :=
  match s with
  | [] => ([], [])
  | c :: r => if p c then let '(a, b) := span p r in (c :: a, b) else ([], s)
  end.

(** ** [__matching__]: [match_go start level s] scans [s] (the text after its
    first character, which is [start] and brought [level] to 1) and returns
    [(text[1:j], text[j+1:])] for the first [j] at which the level is back
    to 0; [None] is Python's [-1]. *)
Fixpoint match_go (start : N) (level : nat) (s : str) : option (str * str) :=
  match s with
  | [] => None
  | l :: r =>
    let level' :=
      if l =? start then S level
      else if (start =? c_lpar) && (l =? c_rpar) then pred level
      else if (start =? c_lbr) && (l =? c_rbr) then pred level
      else level in
    match level' with
    | O => Some ([], r)
    | _ => match match_go start level' r with
           | Some (inner, rest) => Some (l :: inner, rest)
           | None => None
           end
    end
  end.

(** ** [__next_token__] *)
Inductive token : Type :=
| TkParen (w : str)
| TkBracket (w : str)
| TkOr
| TkInfix (w : str)
| TkPoly (w : str)
| TkName (w : str).

(** [None]: the bracket is not closed.  Python then returns index 0 and
    [auto_type] loops forever on the same text (observed as a hang or a
    MemoryError); the model reports failure. *)
Definition next_token (fx : bool) (text : str) : option (token * str) :=
  match text with
  | [] => None
  | c :: r =>
    if (c =? c_lpar) || (c =? c_lbr) then
      match match_go c 1 r with
      | Some (inner, rest) => Some (if c =? c_lbr then TkBracket inner else TkParen inner, rest)
      | None => None
      end
    else if c =? c_bar then Some (TkOr, r)
    else if negb (is_alpha c) && negb (c =? c_quote) then
      let '(a, rest) := span (fun x => negb (ends_op fx x)) r in Some (TkInfix (c :: a), rest)
    else
      let '(a, rest) := span is_namechar r in
      Some (if c =? c_quote then TkPoly a else TkName (c :: a), rest)
  end.

(** ** Names: a code-point list is interned as the number whose base-256
    digits are a leading 1 followed by the code points (injective on bytes). *)
Definition intern (s : str) : N := fold_left (fun acc c => acc * 256 + c) s 1.

Fixpoint unintern_fuel (fuel : nat) (n : N) : str :=
  match fuel with
  | O => []
  | S f => if n <=? 1 then [] else unintern_fuel f (n / 256) ++ [n mod 256]
  end.
Definition unintern (n : N) : str := unintern_fuel (N.to_nat (N.size n)) n.

Definition s_arrow : str := [45; 62].                                (* "->" *)
Definition s_optional : str := [111; 112; 116; 105; 111; 110; 97; 108].  (* "optional" *)
Definition s_unit : str := [117; 110; 105; 116].                      (* "unit" *)
Definition t_unit : ty := TPrim (intern s_unit).

(** [x | last] (Type.__or__ / Sum.__or__) *)
Definition py_or (x last : ty) : ty :=
  match x, last with
  | TSum xs, TSum ls => TSum (ls ++ xs)
  | TSum xs, _ => TSum (last :: xs)
  | _, TSum ls => TSum (x :: ls)
  | _, _ => TSum [x; last]
  end.

Definition mk_infix (w : str) (a last : ty) : ty :=
  if str_eqb w s_arrow then TArrow a last else TGeneric (intern w) [a; last].

(** The final loop: [acc] is the popped top, [rest] the remaining stack (top
    first), [ops] the infix stack (top first). *)
Fixpoint finish_go (acc : ty) (rest : list ty) (ops : list str) : option ty :=
  match rest with
  | [] => Some acc
  | a :: rest' =>
    match ops with
    | [] => None                                    (* IndexError: pop from empty list *)
    | w :: ops' => finish_go (mk_infix w a acc) rest' ops'
    end
  end.
Definition finish (stack : list ty) (ops : list str) : option ty :=
  match stack with
  | [] => None                                       (* assert len(stack) >= 1 *)
  | x :: rest => finish_go x rest ops
  end.

Inductive res (X : Type) : Type :=
| Ok (x : X)
| Err                (* the implementation raises (or, for an unclosed bracket, never returns) *)
| OutOfFuel.
Arguments Ok {X} x.
Arguments Err {X}.
Arguments OutOfFuel {X}.

(** State of the while loop: stack (top first), last_infix, infix_stack (top
    first), or_flag (at the top of an iteration it is -1 or 1: [true] = 1). *)
Record state : Type := St {
  st_stack : list ty;
  st_infix : nat;
  st_ops : list str;
  st_or : bool
}.
Definition st0 : state := St [] 0 [] false.

Definition prep (fx : bool) (s : str) : str := if fx then strip s else s.

(** Effect of the "manage or flags" block after a token that is not [|]. *)
Definition or_block (stack : list ty) (li : nat) (ops : list str) (orf : bool) : option state :=
  if orf then
    match stack with
    | last :: x :: rest => Some (St (py_or x last :: rest) li ops false)
    | _ => None                                      (* assert len(stack) >= 2 *)
    end
  else Some (St stack li ops false).

Fixpoint loop (fx : bool) (fuel : nat) (text : str) (st : state) : res ty :=
  match fuel with
  | O => OutOfFuel
  | S f =>
    match text with
    | [] => match finish (st_stack st) (st_ops st) with Some t => Ok t | None => Err end
    | _ =>
      match next_token fx text with
      | None => Err
      | Some (tok, rest) =>
        let '(St stack li ops orf) := st in
        let continue (o : option state) : res ty :=
          match o with Some st' => loop fx f (strip rest) st' | None => Err end in
        match tok with
        | TkParen w =>
          match loop fx f (prep fx w) st0 with
          | Ok t => continue (or_block (t :: stack) li ops orf)
          | e => e
          end
        | TkBracket w =>
          match stack with
          | [] => Err                                (* assert len(stack) > 0 *)
          | last :: stack' =>
            match last with
            | TPoly n | TFixedPoly n _ =>
              match loop fx f (prep fx w) st0 with
              | Ok r => continue (or_block (TFixedPoly n [r] :: stack') li ops orf)
              | e => e
              end
            | _ => Err                               (* Cannot restrain a non polymorphic type *)
            end
          end
        | TkPoly w => continue (or_block (TPoly (intern w) :: stack) li ops orf)
        | TkName w =>
          (* len(w) > 0 always holds for this token on ASCII input *)
          if (li <? length stack)%nat && negb orf then
            match stack with
            | x :: stack' =>
              continue (or_block ((if str_eqb w s_optional then TSum [t_unit; x]
                                   else TGeneric (intern w) [x]) :: stack') li ops orf)
            | [] => Err                              (* unreachable: li < 0 *)
            end
          else continue (or_block (TPrim (intern w) :: stack) li ops orf)
        | TkInfix w => continue (or_block stack (S li) (w :: ops) orf)
        | TkOr => continue (Some (St stack li ops true))
        end
      end
    end
  end.

Definition auto_type_gen (fx : bool) (el : str) : res ty :=
  loop fx (S (length el)) (prep fx el) st0.

(** The model the theorems are about (repaired behaviour) and the pinned one. *)
Definition auto_type : str -> res ty := auto_type_gen true.
Definition auto_type_pinned : str -> res ty := auto_type_gen false.

(** ** The documented notation as a syntax tree with explicit spacing.
    Numbers are counts of blanks (code point 32) at the places where the
    notation allows any amount of them. *)
Inductive texpr : Type :=
| EName (n : str)                                   (* int *)
| EVar (n : str)                                    (* 'a *)
| EVarR (n : str) (s1 s2 s3 : nat) (r : texpr)      (* 'a s1 [ s2 r s3 ] *)
| EParen (s1 s2 : nat) (e : texpr)                  (* ( s1 e s2 ) *)
| EPost (e : texpr) (s : nat) (g : str)             (* e s g      postfix generic / optional *)
| EUnion (a : texpr) (s1 s2 : nat) (b : texpr)      (* a s1 | s2 b *)
| EArrow (a : texpr) (s1 s2 : nat) (b : texpr).     (* a s1 -> s2 b *)

Definition spaces (k : nat) : str := repeat c_space k.

Fixpoint render (e : texpr) : str :=
  match e with
  | EName n => n
  | EVar n => c_quote :: n
  | EVarR n s1 s2 s3 r => c_quote :: n ++ spaces s1 ++ c_lbr :: spaces s2 ++ render r ++ spaces s3 ++ [c_rbr]
  | EParen s1 s2 e => c_lpar :: spaces s1 ++ render e ++ spaces s2 ++ [c_rpar]
  | EPost e s g => render e ++ spaces s ++ g
  | EUnion a s1 s2 b => render a ++ spaces s1 ++ c_bar :: spaces s2 ++ render b
  | EArrow a s1 s2 b => render a ++ spaces s1 ++ s_arrow ++ spaces s2 ++ render b
  end.

Fixpoint denote (e : texpr) : ty :=
  match e with
  | EName n => TPrim (intern n)
  | EVar n => TPoly (intern n)
  | EVarR n _ _ _ r => TFixedPoly (intern n) [denote r]
  | EParen _ _ e => denote e
  | EPost e _ g => if str_eqb g s_optional then TSum [t_unit; denote e] else TGeneric (intern g) [denote e]
  | EUnion a _ _ b => py_or (denote a) (denote b)
  | EArrow a _ _ b => TArrow (denote a) (denote b)
  end.

(** Precedence level: 0 atom, 1 postfix/union chain, 2 arrow chain. *)
Definition level (e : texpr) : nat :=
  match e with
  | EName _ | EVar _ | EVarR _ _ _ _ _ | EParen _ _ _ => 0
  | EPost _ _ _ | EUnion _ _ _ _ => 1
  | EArrow _ _ _ _ => 2
  end.

(** A name: a letter followed by letters, digits, underscores. *)
Definition valid_name (n : str) : bool :=
  match n with
  | [] => false
  | c :: r => is_alpha c && forallb is_namechar r
  end.

(** Does the rendering end with a name character (so that a following name
    needs a blank)?  *)
Fixpoint ends_name (e : texpr) : bool :=
  match e with
  | EName _ | EVar _ | EPost _ _ _ => true
  | EVarR _ _ _ _ _ | EParen _ _ _ => false
  | EUnion _ _ _ b => ends_name b
  | EArrow _ _ _ b => ends_name b
  end.

(** What may follow [|]: a name, a variable, a parenthesis (a restricted
    variable must be parenthesised there: the parser merges the union before it
    sees the bracket). *)
Definition simple_atom (e : texpr) : bool :=
  match e with EName _ | EVar _ | EParen _ _ _ => true | _ => false end.

(** Well-formed expressions of the documented notation. *)
Fixpoint wf (e : texpr) : bool :=
  match e with
  | EName n => valid_name n
  | EVar n => valid_name n
  | EVarR n _ _ _ r => valid_name n && wf r
  | EParen _ _ e => wf e
  | EPost e s g => wf e && (level e <=? 1)%nat && valid_name g && ((1 <=? s)%nat || negb (ends_name e))
  | EUnion a _ _ b => wf a && (level a <=? 1)%nat && wf b && simple_atom b
  | EArrow a _ _ b => wf a && (level a <=? 1)%nat && wf b
  end.

(** n-ary function notation  a1 -> a2 -> ... -> r  with per-arrow spacing. *)
Fixpoint arrow_chain (args : list (texpr * (nat * nat))) (r : texpr) : texpr :=
  match args with
  | [] => r
  | (a, (s1, s2)) :: rest => EArrow a s1 s2 (arrow_chain rest r)
  end.

(** ** Printer from type objects: [show_type style t].  The style fixes the
    blanks and whether compound sub-expressions get redundant parentheses. *)
Record style : Type := Style {
  sy_arrow : nat * nat;      (* blanks before / after -> *)
  sy_bar : nat * nat;        (* blanks before / after | *)
  sy_post : nat;             (* extra blanks before a postfix name (one is always printed) *)
  sy_paren : nat * nat;      (* blanks inside ( ) *)
  sy_brack : nat * (nat * nat); (* blanks before [ and inside [ ] *)
  sy_redundant : bool        (* parenthesise every argument, operand and component *)
}.

Definition paren (sy : style) (e : texpr) : texpr := EParen (fst (sy_paren sy)) (snd (sy_paren sy)) e.
(* operand of a postfix name, left operand of -> and first member of a union *)
Definition at_level1 (sy : style) (e : texpr) : texpr :=
  if sy_redundant sy then paren sy e else if (level e <=? 1)%nat then e else paren sy e.
(* later members of a union *)
Definition as_simple (sy : style) (e : texpr) : texpr :=
  if sy_redundant sy then paren sy e else if simple_atom e then e else paren sy e.

Definition is_sum (t : ty) : bool := match t with TSum _ => true | _ => false end.

(** [x1 ... xn] (n >= 2) is what  x(n-1) | xn | x(n-2) | ... | x1  parses to. *)
Fixpoint union_chain (sy : style) (acc : texpr) (l : list texpr) : texpr :=
  match l with
  | [] => acc
  | x :: r => union_chain sy (EUnion acc (fst (sy_bar sy)) (snd (sy_bar sy)) (as_simple sy x)) r
  end.

Fixpoint to_expr (sy : style) (t : ty) : texpr :=
  match t with
  | TPrim n => EName (unintern n)
  | TPoly n => EVar (unintern n)
  | TArrow a b => EArrow (at_level1 sy (to_expr sy a)) (fst (sy_arrow sy)) (snd (sy_arrow sy)) (to_expr sy b)
  | TGeneric g [x] => EPost (at_level1 sy (to_expr sy x)) (S (sy_post sy)) (unintern g)
  | TFixedPoly n [r] =>
    EVarR (unintern n) (fst (sy_brack sy)) (fst (snd (sy_brack sy))) (snd (snd (sy_brack sy))) (to_expr sy r)
  | TSum [u; x] =>
    if ty_eqb u t_unit then EPost (at_level1 sy (to_expr sy x)) (S (sy_post sy)) s_optional
    else EUnion (at_level1 sy (to_expr sy u)) (fst (sy_bar sy)) (snd (sy_bar sy)) (as_simple sy (to_expr sy x))
  | TSum l =>
    match rev (map (to_expr sy) l) with
    | xn :: xn1 :: before =>
      union_chain sy (EUnion (at_level1 sy xn1) (fst (sy_bar sy)) (snd (sy_bar sy)) (as_simple sy xn)) before
    | _ => EName []
    end
  | _ => EName []
  end.

Definition show_type (sy : style) (t : ty) : str := render (to_expr sy t).

Definition doc_name (n : N) : bool := valid_name (unintern n) && (intern (unintern n) =? n).

(** The type objects the documented notation denotes: base names, arrows,
    one-argument postfix generics (any name but "optional"), variables,
    restricted variables, [t optional] = Sum(unit, t) and unions of two or more
    non-union members. *)
Fixpoint documented (t : ty) : bool :=
  match t with
  | TPrim n => doc_name n
  | TPoly n => doc_name n
  | TArrow a b => documented a && documented b
  | TGeneric g [x] => doc_name g && negb (str_eqb (unintern g) s_optional) && documented x
  | TFixedPoly n [r] => doc_name n && documented r
  | TSum [u; x] =>
    if ty_eqb u t_unit then documented x
    else documented u && negb (is_sum u) && documented x && negb (is_sum x)
  | TSum (a :: b :: c :: l) =>
    forallb (fun x => documented x && negb (is_sum x)) (a :: b :: c :: l)
  | _ => false
  end.
