(** Property C16, second half: persistence.  Objects carry the hash their
    constructor cached (computed with the hash functions [H] of the process
    that built them); [reduce] is what pickle writes for each class, [rebuild]
    what the reading process (hash functions [H']) makes of it.

    What pickle writes, class by class (type_system.py:648-659, 493-498;
    program.py:440-443):
    - PrimitiveType, PolymorphicType, FixedPolymorphicType, Arrow, Sum,
      UnknownType, Primitive, Variable, Constant, Function, Lambda are
      registered with [copyreg.pickle(cls, cls.__pickle__)]: the pickle holds
      (class, constructor arguments) and the reader calls the constructor, which
      recomputes [hash] (and, for Function, [type]).  FixedPolymorphicType is
      registered itself, with its own [__pickle__] (name and member types).
    - Generic is not registered; [object.__reduce_ex__] writes
      [copyreg.__newobj__(Generic)] plus [__getstate__()], the instance dict
      without "hash"; the reader's [__setstate__] installs the dict and
      recomputes [hash((name, types))].
    - a class with neither ([registry] answers false; none at the pinned
      commit) gets the default treatment: the whole instance dict, cached
      "hash" included, is written and copied back.
    Containers (lists, tuples, dicts, dataclass instances such as Task,
    Dataset, PBE, Example, NGram, and the grammars' rule tables) cache no hash:
    they are rebuilt member by member, dict keys being re-inserted under the
    hashes their rebuilt keys report. *)
From Coq Require Import ZArith NArith List Bool.
From PS Require Import Base.ListX Base.Sexp Syn.EqHash.
Import ListNotations.

(** * Objects with their cached hash *)

Inductive hty : Type :=
| HPrim (n : N) (h : Z)
| HArrow (a b : hty) (h : Z)
| HGeneric (n : N) (ts : list hty) (infix : bool) (h : Z)
| HPoly (n : N) (h : Z)
| HFixed (n : N) (ts : list hty) (h : Z)
| HSum (ts : list hty) (h : Z)
| HUnknown (h : Z).

(** [hash(t)] = the cached field *)
Definition th (t : hty) : Z :=
  match t with
  | HPrim _ h | HArrow _ _ h | HGeneric _ _ _ h | HPoly _ h | HFixed _ _ h | HSum _ h | HUnknown h => h
  end.

Fixpoint erase_ty (t : hty) : oty :=
  match t with
  | HPrim n _ => OPrim n
  | HArrow a b _ => OArrow (erase_ty a) (erase_ty b)
  | HGeneric n ts i _ => OGeneric n (map erase_ty ts) i
  | HPoly n _ => OPoly n
  | HFixed n ts _ => OFixed n (map erase_ty ts)
  | HSum ts _ => OSum (map erase_ty ts)
  | HUnknown _ => OUnknown
  end.

Inductive hprog : Type :=
| HPrimitive (n : N) (t : hty) (h : Z)
| HVariable (i : N) (t : hty) (h : Z)
| HConstant (t : hty) (c : cstate) (h : Z)
| HFunction (f : hprog) (args : list hprog) (ty : hty) (h : Z)   (* [ty]: the computed [type] attribute *)
| HLambda (body : hprog) (t : hty) (h : Z).

Definition ph (p : hprog) : Z :=
  match p with
  | HPrimitive _ _ h | HVariable _ _ h | HConstant _ _ h | HFunction _ _ _ h | HLambda _ _ h => h
  end.
Definition hp_type (p : hprog) : hty :=
  match p with
  | HPrimitive _ t _ | HVariable _ t _ | HConstant t _ _ | HFunction _ _ t _ | HLambda _ t _ => t
  end.

Fixpoint erase_prog (p : hprog) : oprog :=
  match p with
  | HPrimitive n t _ => OPrimitive n (erase_ty t)
  | HVariable i t _ => OVariable i (erase_ty t)
  | HConstant t c _ => OConstant (erase_ty t) c
  | HFunction f l _ _ => OFunction (erase_prog f) (map erase_prog l)
  | HLambda b t _ => OLambda (erase_prog b) (erase_ty t)
  end.

(** * Constructors, run in a process whose hash functions are [H] *)
Section Construct.
  Variable H : hashers.

  Definition mk_prim (n : N) : hty := HPrim n (h_str H (SLit n)).
  Definition mk_arrow (a b : hty) : hty := HArrow a b (h_tup H [th a; th b]).
  Definition mk_generic (n : N) (ts : list hty) (i : bool) : hty :=
    HGeneric n ts i (h_tup H [h_str H (SLit n); h_tup H (map th ts)]).
  Definition mk_poly (n : N) : hty := HPoly n (h_str H (SLit n)).
  Definition mk_fixed (n : N) (ts : list hty) : hty := HFixed n ts (h_str H (SLit n)).
  (** frozenset(types): a member is dropped when an earlier one has the same
      hash and is [==] to it (C16-2) *)
  Definition h_same (y x : hty) : bool := Z.eqb (th y) (th x) && ty_eq (erase_ty y) (erase_ty x).
  Definition mk_sum (ts : list hty) : hty := HSum ts (h_set H (map th (dedup h_same ts))).
  Definition mk_unknown : hty := HUnknown (h_int H 1984).

  Fixpoint build_ty (t : oty) : hty :=
    match t with
    | OPrim n => mk_prim n
    | OArrow a b => mk_arrow (build_ty a) (build_ty b)
    | OGeneric n ts i => mk_generic n (map build_ty ts) i
    | OPoly n => mk_poly n
    | OFixed n ts => mk_fixed n (map build_ty ts)
    | OSum ts => mk_sum (map build_ty ts)
    | OUnknown => mk_unknown
    end.

  (** Type.arguments / Type.returns / type_helper.FunctionType on built objects *)
  Fixpoint h_arguments (t : hty) : list hty :=
    match t with HArrow a b _ => a :: h_arguments b | _ => [] end.
  Fixpoint h_returns (t : hty) : hty :=
    match t with HArrow _ b _ => h_returns b | _ => t end.
  Fixpoint h_function_type (args : list hty) (r : hty) : hty :=
    match args with [] => r | a :: rest => mk_arrow a (h_function_type rest r) end.

  Definition mk_primitive (n : N) (t : hty) : hprog :=
    HPrimitive n t (h_tup H [h_str H (SLit n); th t]).
  Definition mk_variable (i : N) (t : hty) : hprog :=
    HVariable i t (h_int H (Z.of_N i)).                        (* C16-1 *)
  Definition mk_constant (t : hty) (c : cstate) : hprog :=
    HConstant t c (h_tup H [h_str H (py_str (cs_value c)); h_int H (of_bool (cs_flag c)); th t]).
  Definition mk_function (f : hprog) (args : list hprog) : hprog :=
    HFunction f args
      (h_function_type (skipn (length args) (h_arguments (hp_type f))) (h_returns (hp_type f)))
      (h_tup H (map ph args ++ [ph f])).
  Definition mk_lambda (b : hprog) (t : hty) : hprog :=
    HLambda b t (h_int H (94135 + ph b)).

  Fixpoint build_prog (p : oprog) : hprog :=
    match p with
    | OPrimitive n t => mk_primitive n (build_ty t)
    | OVariable i t => mk_variable i (build_ty t)
    | OConstant t c => mk_constant (build_ty t) c
    | OFunction f l => mk_function (build_prog f) (map build_prog l)
    | OLambda b t => mk_lambda (build_prog b) (build_ty t)
    end.
End Construct.

(** every cached hash (and computed type) inside the object is the one a
    fresh construction in the process [H] computes *)
Definition cached_ok_ty (H : hashers) (t : hty) : Prop := t = build_ty H (erase_ty t).
Definition cached_ok_prog (H : hashers) (p : hprog) : Prop := p = build_prog H (erase_prog p).

(** * What pickle writes *)

Inductive tclass : Type := CPrim | CArrow | CGeneric | CPoly | CFixed | CSum | CUnknown.
Inductive pclass : Type := KPrimitive | KVariable | KConstant | KFunction | KLambda.

Record registry : Type := {
  reg_ty : tclass -> bool;     (* the class pickles through its reducer / __getstate__ *)
  reg_prog : pclass -> bool
}.
(** the code as it is: every class *)
Definition all_registered : registry := {| reg_ty := fun _ => true; reg_prog := fun _ => true |}.

Inductive pty : Type :=
| PPrim (n : N)                                  (* PrimitiveType, (type_name,) *)
| PArrow (a b : pty)                             (* Arrow, (type_in, type_out) *)
| PPoly (n : N)                                  (* PolymorphicType, (name,) *)
| PFixed (n : N) (ts : list pty)                 (* FixedPolymorphicType, (name, types...) *)
| PSum (ts : list pty)                           (* Sum, tuple(types) *)
| PUnknown                                       (* UnknownType, () *)
| PGenericState (n : N) (ts : list pty) (infix : bool)   (* new Generic + state without "hash" *)
| PTyDict (c : tclass) (n : N) (ts : list pty) (infix : bool) (h : Z).  (* default: whole dict, "hash" included *)

Inductive pprog : Type :=
| PPrimitive (n : N) (t : pty)                   (* Primitive, (primitive, type) *)
| PVariable (i : N) (t : pty)                    (* Variable, (variable, type) *)
| PConstant (t : pty) (v : cval) (flag : bool)   (* Constant, (type, value, _has_value) *)
| PFunction (f : pprog) (args : list pprog)      (* Function, (function, arguments) *)
| PLambda (b : pprog) (t : pty)                  (* Lambda, (body, type) *)
| PProgDict (c : pclass) (n : N) (cs : cstate) (t : pty) (subs : list pprog) (h : Z).

Section Reduce.
  Variable reg : registry.

  Fixpoint reduce_ty (t : hty) : pty :=
    match t with
    | HPrim n h => if reg_ty reg CPrim then PPrim n else PTyDict CPrim n [] false h
    | HArrow a b h =>
      if reg_ty reg CArrow then PArrow (reduce_ty a) (reduce_ty b)
      else PTyDict CArrow 0 [reduce_ty a; reduce_ty b] false h
    | HGeneric n ts i h =>
      if reg_ty reg CGeneric then PGenericState n (map reduce_ty ts) i
      else PTyDict CGeneric n (map reduce_ty ts) i h
    | HPoly n h => if reg_ty reg CPoly then PPoly n else PTyDict CPoly n [] false h
    | HFixed n ts h =>
      if reg_ty reg CFixed then PFixed n (map reduce_ty ts) else PTyDict CFixed n (map reduce_ty ts) false h
    | HSum ts h => if reg_ty reg CSum then PSum (map reduce_ty ts) else PTyDict CSum 0 (map reduce_ty ts) false h
    | HUnknown h => if reg_ty reg CUnknown then PUnknown else PTyDict CUnknown 0 [] false h
    end.

  Fixpoint reduce_prog (p : hprog) : pprog :=
    match p with
    | HPrimitive n t h =>
      if reg_prog reg KPrimitive then PPrimitive n (reduce_ty t)
      else PProgDict KPrimitive n CUnset (reduce_ty t) [] h
    | HVariable i t h =>
      if reg_prog reg KVariable then PVariable i (reduce_ty t)
      else PProgDict KVariable i CUnset (reduce_ty t) [] h
    | HConstant t c h =>
      if reg_prog reg KConstant then PConstant (reduce_ty t) (cs_value c) (cs_flag c)
      else PProgDict KConstant 0 c (reduce_ty t) [] h
    | HFunction f l ty h =>
      if reg_prog reg KFunction then PFunction (reduce_prog f) (map reduce_prog l)
      else PProgDict KFunction 0 CUnset (reduce_ty ty) (reduce_prog f :: map reduce_prog l) h
    | HLambda b t h =>
      if reg_prog reg KLambda then PLambda (reduce_prog b) (reduce_ty t)
      else PProgDict KLambda 0 CUnset (reduce_ty t) [reduce_prog b] h
    end.
End Reduce.

(** * What the reader makes of it, with its own hash functions *)
Section Rebuild.
  Variable H : hashers.

  Fixpoint rebuild_ty (p : pty) : hty :=
    match p with
    | PPrim n => mk_prim H n
    | PArrow a b => mk_arrow H (rebuild_ty a) (rebuild_ty b)
    | PPoly n => mk_poly H n
    | PFixed n ts => mk_fixed H n (map rebuild_ty ts)
    | PSum ts => mk_sum H (map rebuild_ty ts)
    | PUnknown => mk_unknown H
    | PGenericState n ts i => mk_generic H n (map rebuild_ty ts) i      (* __setstate__ *)
    | PTyDict c n ts i h =>                                            (* the stored hash is copied *)
      let ts' := map rebuild_ty ts in
      match c, ts' with
      | CPrim, _ => HPrim n h
      | CArrow, [a; b] => HArrow a b h
      | CGeneric, _ => HGeneric n ts' i h
      | CPoly, _ => HPoly n h
      | CFixed, _ => HFixed n ts' h
      | CSum, _ => HSum ts' h
      | _, _ => HUnknown h
      end
    end.

  Fixpoint rebuild_prog (p : pprog) : hprog :=
    match p with
    | PPrimitive n t => mk_primitive H n (rebuild_ty t)
    | PVariable i t => mk_variable H i (rebuild_ty t)
    | PConstant t v flag => mk_constant H (rebuild_ty t) (mk_cstate v (Some flag))
    | PFunction f l => mk_function H (rebuild_prog f) (map rebuild_prog l)
    | PLambda b t => mk_lambda H (rebuild_prog b) (rebuild_ty t)
    | PProgDict c n cs t subs h =>
      let t' := rebuild_ty t in
      let subs' := map rebuild_prog subs in
      match c, subs' with
      | KPrimitive, _ => HPrimitive n t' h
      | KVariable, _ => HVariable n t' h
      | KConstant, _ => HConstant t' cs h
      | KFunction, f :: l => HFunction f l t' h
      | KLambda, [b] => HLambda b t' h
      | _, _ => HVariable 0 t' h
      end
    end.
End Rebuild.

(** * Containers *)

(** Lists/tuples/dataclass instances are [DList]; dicts keep keys and values
    in insertion order; atoms are integers, strings, floats, None... (never
    affected by the hash seed once loaded). *)
Inductive odata : Type :=
| DTy (t : oty)
| DProg (p : oprog)
| DAtom (z : Z)
| DList (l : list odata)
| DDict (ks vs : list odata).

Inductive hdata : Type :=
| HDTy (t : hty)
| HDProg (p : hprog)
| HDAtom (z : Z)
| HDList (l : list hdata)
| HDDict (ks vs : list hdata).

Inductive pdata : Type :=
| PDTy (t : pty)
| PDProg (p : pprog)
| PDAtom (z : Z)
| PDList (l : list pdata)
| PDDict (ks vs : list pdata).

Fixpoint build_data (H : hashers) (d : odata) : hdata :=
  match d with
  | DTy t => HDTy (build_ty H t)
  | DProg p => HDProg (build_prog H p)
  | DAtom z => HDAtom z
  | DList l => HDList (map (build_data H) l)
  | DDict ks vs => HDDict (map (build_data H) ks) (map (build_data H) vs)
  end.
Fixpoint erase_data (d : hdata) : odata :=
  match d with
  | HDTy t => DTy (erase_ty t)
  | HDProg p => DProg (erase_prog p)
  | HDAtom z => DAtom z
  | HDList l => DList (map erase_data l)
  | HDDict ks vs => DDict (map erase_data ks) (map erase_data vs)
  end.
Fixpoint reduce_data (reg : registry) (d : hdata) : pdata :=
  match d with
  | HDTy t => PDTy (reduce_ty reg t)
  | HDProg p => PDProg (reduce_prog reg p)
  | HDAtom z => PDAtom z
  | HDList l => PDList (map (reduce_data reg) l)
  | HDDict ks vs => PDDict (map (reduce_data reg) ks) (map (reduce_data reg) vs)
  end.
Fixpoint rebuild_data (H : hashers) (d : pdata) : hdata :=
  match d with
  | PDTy t => HDTy (rebuild_ty H t)
  | PDProg p => HDProg (rebuild_prog H p)
  | PDAtom z => HDAtom z
  | PDList l => HDList (map (rebuild_data H) l)
  | PDDict ks vs => HDDict (map (rebuild_data H) ks) (map (rebuild_data H) vs)
  end.
Definition cached_ok_data (H : hashers) (d : hdata) : Prop := d = build_data H (erase_data d).

(** [==] and [hash] of (tuples of) objects, as dict keys use them *)
Fixpoint data_eq (a b : odata) {struct a} : bool :=
  match a, b with
  | DTy t, DTy u => ty_eq t u
  | DProg p, DProg q => prog_eq p q
  | DAtom x, DAtom y => Z.eqb x y
  | DList l, DList l' => Nat.eqb (length l) (length l') && all2 data_eq l l'
  | _, _ => false            (* dicts are not hashable: never keys *)
  end.
Fixpoint data_hash (H : hashers) (d : hdata) : Z :=
  match d with
  | HDTy t => th t
  | HDProg p => ph p
  | HDAtom z => h_int H z
  | HDList l => h_tup H (map (data_hash H) l)
  | HDDict _ _ => 0%Z
  end.
(** dict lookup: first stored key with the probe's hash that is [==] to it *)
Fixpoint hdict_get (H : hashers) (k : hdata) (ks vs : list hdata) : option hdata :=
  match ks, vs with
  | k' :: kr, v :: vr =>
    if Z.eqb (data_hash H k') (data_hash H k) && data_eq (erase_data k') (erase_data k) then Some v
    else hdict_get H k kr vr
  | _, _ => None
  end.
Fixpoint odict_get (k : odata) (ks vs : list odata) : option odata :=
  match ks, vs with
  | k' :: kr, v :: vr => if data_eq k' k then Some v else odict_get k kr vr
  | _, _ => None
  end.

(** flat list of every type / program object inside an object, in the order
    the glue and the harness traverse them (children first) *)
Fixpoint sub_tys (t : hty) : list hty :=
  match t with
  | HArrow a b _ => sub_tys a ++ sub_tys b ++ [t]
  | HGeneric _ ts _ _ => flat_map sub_tys ts ++ [t]
  | HFixed _ ts _ => flat_map sub_tys ts ++ [t]
  | HSum ts _ => flat_map sub_tys ts ++ [t]
  | _ => [t]
  end.
Fixpoint sub_progs (p : hprog) : list hprog :=
  match p with
  | HFunction f l _ _ => sub_progs f ++ flat_map sub_progs l ++ [p]
  | HLambda b _ _ => sub_progs b ++ [p]
  | _ => [p]
  end.
