(** Real-number model of tensor2log_prob_grammar / to_prob_det_grammar /
    to_prob_u_grammar / log_probability (synth/nn/det_grammar_predictor.py:133-209,
    u_grammar_predictor.py:158-260, 51-77) for ONE non-terminal S.

    What the code does at S (both layers):
      y      = F.log_softmax(x[start : start+length])     slice of S's abstraction
      tags   = y[index of P]           for every primitive rule P derivable from S
               (U: once per alternative of P)
      total  = sum(exp(tags))
      if S has variables or constants:
          if total > 0:  tags += log((1 - v) / total);  vp = v
          else:          vp = 1
          lp = log(vp / (nv + nc))
          for each variable:  tag = lp;  if total_variable_order: lp = log(exp(lp) - 1e-7)
          for each constant:  tag = lp
      elif total > 0:    tags += log(1 / total)
    and the conversion takes exp of every tag (the U layer then divides by the sum).

    Nothing here is extracted; theorems are in NN/PredictProofs.v.  The float32 /
    float64 arithmetic of the implementation is NOT modelled: the gap is measured
    by the correspondence check (harness/props/c19.py), not proved. *)
From Coq Require Import Reals List Bool Arith.
From PS Require Import Base.Prog Gram.Det NN.Encode.
Import ListNotations.
Local Open Scope R_scope.

Definition sumR (l : list R) : R := fold_right Rplus 0 l.
Definition prodR (l : list R) : R := fold_right Rmult 1 l.

(** F.log_softmax over a slice *)
Definition log_softmax (sl : list R) : list R :=
  let z := ln (sumR (map exp sl)) in map (fun x => x - z) sl.

(** The configuration of one non-terminal. *)
Record ntconf : Type := {
  eps : R;              (* the decrement of the total_variable_order trick: 1e-7 in the code *)
  vprob : R;            (* variable_probability *)
  tvo : bool;           (* total_variable_order *)
  slice : list R;       (* the raw tensor restricted to the slice of S's abstraction *)
  idx : list nat;       (* position in the slice of each derivable primitive rule (U: of each alternative) *)
  nv : nat;             (* number of variable rules of S *)
  nc : nat;             (* number of constant rules of S *)
}.

Section NonTerminal.
  Variable c : ntconf.

  Definition ptags0 : list R := map (fun i => nth i (log_softmax (slice c)) 0) (idx c).
  Definition total : R := sumR (map exp ptags0).
  Definition has_vc : bool := negb (Nat.eqb (nv c + nc c) 0).

  Definition to_add : R := if has_vc then ln ((1 - vprob c) / total) else ln (1 / total).
  Definition ptags : list R := if Rlt_dec 0 total then map (fun t => t + to_add) ptags0 else ptags0.

  Definition var_probability : R := if Rlt_dec 0 total then vprob c else 1.
  Definition lp0 : R := ln (var_probability / INR (nv c + nc c)).
  Definition dec (lp : R) : R := if tvo c then ln (exp lp - eps c) else lp.
  (** tags of n variables starting from lp, and the value of lp afterwards *)
  Fixpoint vtags (n : nat) (lp : R) : list R * R :=
    match n with
    | O => ([], lp)
    | S k => let (l, lp') := vtags k (dec lp) in (lp :: l, lp')
    end.
  Definition vctags : list R :=
    if has_vc then let (vt, lp) := vtags (nv c) lp0 in vt ++ repeat lp (nc c) else [].

  (** all tags of S: primitive rules, then variables, then constants *)
  Definition tags : list R := ptags ++ vctags.

  (** to_prob_det_grammar: exp of every tag *)
  Definition weights : list R := map exp tags.
  Definition prim_weights : list R := map exp ptags.
  Definition vc_weights : list R := map exp vctags.

  (** to_prob_u_grammar: exp, then ProbUGrammar.normalise *)
  Definition normalise (ws : list R) : list R := map (fun w => w / sumR ws) ws.
  Definition u_weights : list R := normalise weights.

  (** ---- the closed forms the theorems establish ---- *)
  Definition eps_eff : R := if tvo c then eps c else 0.
  Definition no_prims : bool := match idx c with [] => true | _ => false end.
  (** mass given to variables and constants together (before the epsilon trick) *)
  Definition vmass : R := if has_vc then (if no_prims then 1 else vprob c) else 0.
  (** mass given to the primitive rules *)
  Definition pmass : R := if no_prims then 0 else if has_vc then 1 - vprob c else 1.
  Definition p0 : R := vmass / INR (nv c + nc c).
  (** what the epsilon trick removes *)
  Definition delta : R :=
    if has_vc then eps_eff * (INR (nv c) * (INR (nv c) - 1) / 2 + INR (nv c) * INR (nc c)) else 0.

  Definition xsum : R := sumR (map (fun i => exp (nth i (slice c) 0)) (idx c)).
  Definition closed_prims : list R := map (fun i => pmass * exp (nth i (slice c) 0) / xsum) (idx c).
  Definition closed_vc : list R :=
    if has_vc then map (fun k => p0 - INR k * eps_eff) (seq 0 (nv c)) ++ repeat (p0 - INR (nv c) * eps_eff) (nc c)
    else [].
  Definition closed : list R := closed_prims ++ closed_vc.

  (** hypotheses of the theorems *)
  Definition conf_ok : Prop :=
    0 < vprob c < 1 /\ 0 <= eps c /\
    Forall (fun i => (i < length (slice c))%nat) (idx c) /\
    (* S has at least one rule *)
    (idx c <> [] \/ (0 < nv c + nc c)%nat) /\
    (* every decremented variable probability stays positive: v/(nv+nc) > nv * 1e-7 *)
    (has_vc = true -> INR (nv c) * eps_eff < p0).
End NonTerminal.

(** start symbols of a U grammar: raw entries z of the selected starts,
    start_tags = z + log(1 / sum(exp z)) *)
Definition start_tags (zs : list R) : list R := map (fun z => z + ln (1 / sumR (map exp zs))) zs.

(** ---- log-probability and probability of a program ---- *)
Section Programs.
  Variable tbl : table.
  Variable start : nt.

  (** TensorLogProbDetGrammar.log_probability: reduce with + on the tags, from 0 *)
  Definition log_probability (tag : nt -> sym -> R) (p : prog) : option R :=
    reduce_derivations (fun acc x s => acc + tag x s) tbl start 0 p.
  (** ProbDetGrammar.probability: reduce with * on the weights, from 1 *)
  Definition probability (w : nt -> sym -> R) (p : prog) : option R :=
    reduce_derivations (fun acc x s => acc * w x s) tbl start 1 p.
End Programs.
