(** Proofs about NN/Predict.v (over Coq's classical reals). *)
From Coq Require Import Reals Lra List Bool Arith Lia.
From PS Require Import Base.Prog Gram.Det NN.Encode NN.EncodeProofs NN.Predict.
Import ListNotations.
Local Open Scope R_scope.

(** ---- sums and products ---- *)
Lemma sumR_app l1 l2 : sumR (l1 ++ l2) = sumR l1 + sumR l2.
Proof. unfold sumR; induction l1; simpl; lra. Qed.

Lemma sumR_scale k l : sumR (map (fun x => k * x) l) = k * sumR l.
Proof. unfold sumR; induction l; simpl; lra. Qed.

Lemma sumR_repeat x n : sumR (repeat x n) = INR n * x.
Proof.
  induction n as [|n IH]; [simpl; lra|].
  rewrite S_INR. simpl repeat. unfold sumR in *; simpl; rewrite IH; lra.
Qed.

Lemma map_repeat' {X Y} (f : X -> Y) x n : map f (repeat x n) = repeat (f x) n.
Proof. induction n; simpl; congruence. Qed.

Lemma sumR_nonneg l : Forall (fun x => 0 <= x) l -> 0 <= sumR l.
Proof. unfold sumR; induction 1; simpl; lra. Qed.

Lemma sumR_pos l : l <> [] -> Forall (fun x => 0 < x) l -> 0 < sumR l.
Proof.
  destruct l as [|x r]; [congruence|]. intros _ H. inversion H as [|? ? Hx Hr]; subst.
  assert (0 <= sumR r) by (apply sumR_nonneg; eapply Forall_impl; [|exact Hr]; intros; cbn in *; lra).
  unfold sumR in *; simpl; lra.
Qed.

Lemma Forall_exp_pos l : Forall (fun x => 0 < x) (map exp l).
Proof. apply Forall_forall. intros x H. apply in_map_iff in H as (y & <- & _). apply exp_pos. Qed.

Lemma sumR_exp_pos l : l <> [] -> 0 < sumR (map exp l).
Proof. intros H. apply sumR_pos; [destruct l; cbn; congruence | apply Forall_exp_pos]. Qed.

(** arithmetic progression *)
Lemma sumR_arith a e n s :
  sumR (map (fun k => a - INR k * e) (seq s n)) = INR n * a - e * (INR n * INR s + INR n * (INR n - 1) / 2).
Proof.
  revert s; induction n as [|n IH]; intros s; [simpl; lra|].
  simpl seq. simpl map. unfold sumR in *; simpl fold_right. rewrite IH. rewrite !S_INR. field.
Qed.

Lemma exp_minus_ln a z : 0 < z -> exp (a - ln z) = exp a / z.
Proof. intros H. unfold Rminus, Rdiv. rewrite exp_plus, exp_Ropp, exp_ln; auto. Qed.

Lemma exp_plus_ln a z : 0 < z -> exp (a + ln z) = exp a * z.
Proof. intros H. rewrite exp_plus, exp_ln; auto. Qed.

Lemma nth_log_softmax sl i :
  (i < length sl)%nat -> nth i (log_softmax sl) 0 = nth i sl 0 - ln (sumR (map exp sl)).
Proof.
  intros H. unfold log_softmax.
  rewrite (nth_indep _ 0 ((fun x => x - ln (sumR (map exp sl))) 0)) by (rewrite map_length; auto).
  apply (map_nth (fun x => x - ln (sumR (map exp sl)))).
Qed.

(** log-softmax really is a normalisation of the slice (not needed below, but
    it is what __normalize__ is for) *)
Lemma log_softmax_normalised sl : sl <> [] -> sumR (map exp (log_softmax sl)) = 1.
Proof.
  intros H. pose proof (sumR_exp_pos sl H) as Hz. unfold log_softmax. rewrite map_map.
  rewrite (map_ext _ (fun x => / sumR (map exp sl) * exp x)).
  - rewrite <- (map_map exp (fun y => / sumR (map exp sl) * y)), sumR_scale. field. lra.
  - intros a. rewrite exp_minus_ln; auto. unfold Rdiv; lra.
Qed.

Section NT.
  Variable c : ntconf.
  Hypothesis Hok : conf_ok c.

  Let Z := sumR (map exp (slice c)).

  Lemma Hv : 0 < vprob c < 1. Proof. apply Hok. Qed.
  Lemma Heps : 0 <= eps c. Proof. apply Hok. Qed.
  Lemma Hidx : Forall (fun i => (i < length (slice c))%nat) (idx c). Proof. apply Hok. Qed.

  Lemma slice_nonempty : idx c <> [] -> slice c <> [].
  Proof.
    intros H E. pose proof Hidx as Hi. destruct (idx c) as [|i r]; [congruence|].
    inversion Hi as [|? ? H1 _]; subst. rewrite E in H1; cbn in H1; lia.
  Qed.

  Lemma Zpos : idx c <> [] -> 0 < Z.
  Proof. intros H. apply sumR_exp_pos, slice_nonempty, H. Qed.

  Lemma xsum_pos : idx c <> [] -> 0 < xsum c.
  Proof.
    intros H. unfold xsum. rewrite <- (map_map (fun i => nth i (slice c) 0) exp).
    apply sumR_exp_pos. destruct (idx c); cbn; congruence.
  Qed.

  Lemma ptags0_exp : idx c <> [] ->
    map exp (ptags0 c) = map (fun i => exp (nth i (slice c) 0) / Z) (idx c).
  Proof.
    intros H. unfold ptags0. rewrite map_map. apply map_ext_in. intros i Hi.
    pose proof Hidx as Hx. rewrite Forall_forall in Hx.
    rewrite nth_log_softmax by auto. apply exp_minus_ln, Zpos, H.
  Qed.

  Lemma total_eq : idx c <> [] -> total c = xsum c / Z.
  Proof.
    intros H. unfold total. rewrite ptags0_exp by auto. unfold xsum.
    rewrite (map_ext _ (fun i => / Z * exp (nth i (slice c) 0))) by (intros; unfold Rdiv; lra).
    rewrite <- (map_map (fun i => exp (nth i (slice c) 0)) (fun y => / Z * y)), sumR_scale.
    unfold Rdiv; lra.
  Qed.

  Lemma total_pos : idx c <> [] -> 0 < total c.
  Proof.
    intros H. rewrite total_eq by auto. apply Rdiv_lt_0_compat; [apply xsum_pos | apply Zpos]; auto.
  Qed.

  Lemma total_zero : idx c = [] -> total c = 0.
  Proof. intros H. unfold total, ptags0. rewrite H. reflexivity. Qed.

  Lemma no_prims_true : idx c = [] -> no_prims c = true.
  Proof. unfold no_prims; intros ->; reflexivity. Qed.
  Lemma no_prims_false : idx c <> [] -> no_prims c = false.
  Proof. unfold no_prims; destruct (idx c); congruence. Qed.

  Lemma pmass_pos : idx c <> [] -> 0 < pmass c.
  Proof.
    intros H. unfold pmass. rewrite no_prims_false by auto. pose proof Hv. destruct (has_vc c); lra.
  Qed.

  (** primitive rules: the slice-wise log-softmax cancels, what remains is
      the softmax over the derivable rules scaled by the primitive mass *)
  Lemma prim_weights_closed : prim_weights c = closed_prims c.
  Proof.
    unfold prim_weights, closed_prims, ptags.
    destruct (idx c) as [|i0 r] eqn:Ei.
    - unfold ptags0. rewrite Ei. destruct (Rlt_dec 0 (total c)); reflexivity.
    - assert (Hne : idx c <> []) by (rewrite Ei; discriminate). rewrite <- Ei.
      pose proof (total_pos Hne) as Ht. pose proof (Zpos Hne) as Hz. pose proof (xsum_pos Hne) as Hx.
      destruct (Rlt_dec 0 (total c)) as [_|Hn]; [|contradiction].
      rewrite map_map.
      assert (Hadd : exp (to_add c) = pmass c / total c).
      { unfold to_add, pmass. rewrite no_prims_false by auto. pose proof Hv.
        destruct (has_vc c); apply exp_ln; apply Rdiv_lt_0_compat; lra. }
      rewrite (map_ext _ (fun t => pmass c / total c * exp t))
        by (intros t; rewrite exp_plus, Hadd; lra).
      rewrite <- (map_map exp (fun y => pmass c / total c * y)), ptags0_exp by auto.
      rewrite map_map. apply map_ext. intros i. rewrite total_eq by auto. field. split; lra.
  Qed.

  Lemma closed_prims_sum : sumR (closed_prims c) = pmass c.
  Proof.
    unfold closed_prims. destruct (idx c) as [|i0 r] eqn:Ei.
    - unfold pmass, no_prims. rewrite Ei. reflexivity.
    - assert (Hne : idx c <> []) by (rewrite Ei; discriminate). rewrite <- Ei.
      pose proof (xsum_pos Hne) as Hx.
      rewrite (map_ext _ (fun i => pmass c / xsum c * exp (nth i (slice c) 0)))
        by (intros; unfold Rdiv; lra).
      rewrite <- (map_map (fun i => exp (nth i (slice c) 0)) (fun y => pmass c / xsum c * y)), sumR_scale.
      fold (xsum c). field. lra.
  Qed.

  Lemma closed_prims_pos : Forall (fun w => 0 < w) (closed_prims c).
  Proof.
    apply Forall_forall. intros w H. unfold closed_prims in H. apply in_map_iff in H as (i & <- & Hi).
    assert (Hne : idx c <> []) by (intros E; rewrite E in Hi; contradiction).
    pose proof (pmass_pos Hne). pose proof (xsum_pos Hne). pose proof (exp_pos (nth i (slice c) 0)).
    apply Rdiv_lt_0_compat; auto. apply Rmult_lt_0_compat; auto.
  Qed.

  (** ---- variables and constants ---- *)
  Lemma eps_eff_nonneg : 0 <= eps_eff c.
  Proof. unfold eps_eff. pose proof Heps. destruct (tvo c); lra. Qed.

  Lemma exp_dec lp : 0 < exp lp - eps_eff c -> exp (dec c lp) = exp lp - eps_eff c.
  Proof. unfold dec, eps_eff. destruct (tvo c); intros H; [apply exp_ln; auto | lra]. Qed.

  Lemma vtags_spec n : forall lp, 0 < exp lp - INR n * eps_eff c ->
    map exp (fst (vtags c n lp)) = map (fun k => exp lp - INR k * eps_eff c) (seq 0 n) /\
    exp (snd (vtags c n lp)) = exp lp - INR n * eps_eff c.
  Proof.
    pose proof eps_eff_nonneg as He.
    induction n as [|n IH]; intros lp H.
    - simpl. split; auto. lra.
    - rewrite S_INR in H. assert (0 <= INR n) by apply pos_INR.
      assert (Hd : exp (dec c lp) = exp lp - eps_eff c) by (apply exp_dec; nra).
      cbn [vtags]. specialize (IH (dec c lp)). rewrite Hd in IH.
      destruct (vtags c n (dec c lp)) as [l lp'] eqn:E. cbn [fst snd] in *.
      destruct IH as [IH1 IH2]; [nra|]. split.
      + cbn [seq map]. f_equal; [cbn [INR]; lra|].
        rewrite IH1, <- seq_shift, map_map. apply map_ext. intros k. rewrite S_INR. lra.
      + rewrite IH2, S_INR. lra.
  Qed.

  Lemma has_vc_pos : has_vc c = true -> 0 < INR (nv c + nc c).
  Proof.
    unfold has_vc. rewrite negb_true_iff, Nat.eqb_neq. intros H. apply lt_0_INR. lia.
  Qed.

  Lemma var_probability_eq : has_vc c = true -> var_probability c = vmass c.
  Proof.
    intros H. unfold var_probability, vmass. rewrite H.
    destruct (idx c) as [|i0 r] eqn:Ei.
    - rewrite (no_prims_true Ei), (total_zero Ei). destruct (Rlt_dec 0 0); [lra|reflexivity].
    - assert (Hne : idx c <> []) by (rewrite Ei; discriminate).
      rewrite (no_prims_false Hne). destruct (Rlt_dec 0 (total c)) as [_|Hn]; auto.
      pose proof (total_pos Hne); contradiction.
  Qed.

  Lemma vmass_pos : has_vc c = true -> 0 < vmass c.
  Proof. intros H. unfold vmass. rewrite H. pose proof Hv. destruct (no_prims c); lra. Qed.

  Lemma p0_pos : has_vc c = true -> 0 < p0 c.
  Proof. intros H. apply Rdiv_lt_0_compat; [apply vmass_pos | apply has_vc_pos]; auto. Qed.

  Lemma exp_lp0 : has_vc c = true -> exp (lp0 c) = p0 c.
  Proof.
    intros H. unfold lp0. rewrite var_probability_eq by auto. apply exp_ln. apply p0_pos; auto.
  Qed.

  Lemma Hdec : has_vc c = true -> INR (nv c) * eps_eff c < p0 c.
  Proof. apply Hok. Qed.

  Lemma vc_weights_closed : vc_weights c = closed_vc c.
  Proof.
    unfold vc_weights, vctags, closed_vc. destruct (has_vc c) eqn:Hvc; auto.
    pose proof (vtags_spec (nv c) (lp0 c)) as H. rewrite (exp_lp0 Hvc) in H.
    pose proof (Hdec Hvc). destruct H as [H1 H2]; [lra|].
    destruct (vtags c (nv c) (lp0 c)) as [vt lp]. simpl in *.
    rewrite map_app, H1. f_equal. rewrite map_repeat', H2. reflexivity.
  Qed.

  Lemma closed_vc_sum : sumR (closed_vc c) = vmass c - delta c.
  Proof.
    unfold closed_vc, delta. destruct (has_vc c) eqn:Hvc.
    - rewrite sumR_app, sumR_arith, sumR_repeat. pose proof (has_vc_pos Hvc) as Hn.
      rewrite plus_INR in Hn. unfold p0. rewrite plus_INR. simpl INR. field. lra.
    - unfold vmass. rewrite Hvc. simpl. lra.
  Qed.

  Lemma closed_vc_pos : Forall (fun w => 0 < w) (closed_vc c).
  Proof.
    unfold closed_vc. destruct (has_vc c) eqn:Hvc; [|constructor].
    pose proof (Hdec Hvc). pose proof eps_eff_nonneg.
    apply Forall_app; split; apply Forall_forall; intros w Hw.
    - apply in_map_iff in Hw as (k & <- & Hk). apply in_seq in Hk.
      assert (INR k <= INR (nv c)) by (apply le_INR; lia). nra.
    - apply repeat_spec in Hw; subst. lra.
  Qed.

  (** ---- the theorems ---- *)
  Theorem weights_closed : weights c = closed c.
  Proof.
    unfold weights, tags, closed. rewrite map_app.
    fold (prim_weights c) (vc_weights c). rewrite prim_weights_closed, vc_weights_closed. reflexivity.
  Qed.

  Theorem weights_positive : Forall (fun w => 0 < w) (weights c).
  Proof. rewrite weights_closed. apply Forall_app; split; [apply closed_prims_pos | apply closed_vc_pos]. Qed.

  Lemma masses_sum : pmass c + vmass c = 1.
  Proof.
    unfold pmass, vmass. destruct Hok as (_ & _ & _ & Hne & _).
    destruct (idx c) as [|i0 r] eqn:Ei.
    - rewrite (no_prims_true Ei). destruct Hne as [Hne|Hne]; [congruence|].
      assert (has_vc c = true) as -> by (unfold has_vc; rewrite negb_true_iff, Nat.eqb_neq; lia). lra.
    - assert (Hne' : idx c <> []) by (rewrite Ei; discriminate).
      rewrite (no_prims_false Hne'). destruct (has_vc c); lra.
  Qed.

  Theorem weights_sum : sumR (weights c) = 1 - delta c.
  Proof.
    rewrite weights_closed. unfold closed. rewrite sumR_app, closed_prims_sum, closed_vc_sum.
    pose proof masses_sum. lra.
  Qed.

  Theorem prim_mass : sumR (prim_weights c) = pmass c.
  Proof. rewrite prim_weights_closed. apply closed_prims_sum. Qed.

  Theorem variable_mass : sumR (vc_weights c) = vmass c - delta c.
  Proof. rewrite vc_weights_closed. apply closed_vc_sum. Qed.

  Lemma weights_nonempty : weights c <> [].
  Proof.
    rewrite weights_closed. unfold closed, closed_prims, closed_vc.
    destruct Hok as (_ & _ & _ & Hne & _). destruct Hne as [Hne|Hne].
    - destruct (idx c); [congruence|]. cbn. discriminate.
    - assert (has_vc c = true) as -> by (unfold has_vc; rewrite negb_true_iff, Nat.eqb_neq; lia).
      intros E. apply (f_equal (@length R)) in E. rewrite !app_length, !map_length, seq_length, repeat_length in E.
      cbn in E. lia.
  Qed.

  Lemma weights_sum_pos : 0 < sumR (weights c).
  Proof. apply sumR_pos; [apply weights_nonempty | apply weights_positive]. Qed.

  (** U layer: exp then ProbUGrammar.normalise *)
  Theorem u_weights_closed : u_weights c = map (fun w => w / (1 - delta c)) (closed c).
  Proof. unfold u_weights, normalise. rewrite weights_sum, weights_closed. reflexivity. Qed.

  Theorem u_weights_sum : sumR (u_weights c) = 1.
  Proof.
    unfold u_weights, normalise. pose proof weights_sum_pos as H.
    rewrite (map_ext _ (fun w => / sumR (weights c) * w)) by (intros; unfold Rdiv; lra).
    rewrite sumR_scale. field. lra.
  Qed.

  Theorem u_weights_positive : Forall (fun w => 0 < w) (u_weights c).
  Proof.
    unfold u_weights, normalise. pose proof weights_sum_pos as H. pose proof weights_positive as Hp.
    apply Forall_forall. intros w Hw. apply in_map_iff in Hw as (w0 & <- & Hw0).
    rewrite Forall_forall in Hp. apply Rdiv_lt_0_compat; auto.
  Qed.

  Theorem u_variable_mass :
    sumR (map (fun w => w / sumR (weights c)) (vc_weights c)) = (vmass c - delta c) / (1 - delta c).
  Proof.
    pose proof weights_sum_pos as H.
    rewrite (map_ext _ (fun w => / sumR (weights c) * w)) by (intros; unfold Rdiv; lra).
    rewrite sumR_scale, variable_mass, weights_sum. unfold Rdiv; lra.
  Qed.
End NT.

(** without the epsilon trick the hypothesis on v is automatic *)
Lemma conf_ok_no_tvo c :
  0 < vprob c < 1 -> 0 <= eps c -> Forall (fun i => (i < length (slice c))%nat) (idx c) ->
  (idx c <> [] \/ (0 < nv c + nc c)%nat) -> tvo c = false -> conf_ok c.
Proof.
  intros Hv He Hi Hne Ht. repeat split; auto; try apply Hv.
  intros Hvc. unfold eps_eff. rewrite Ht. rewrite Rmult_0_r.
  unfold p0, vmass. rewrite Hvc. apply Rdiv_lt_0_compat.
  - destruct (no_prims c); lra.
  - unfold has_vc in Hvc. rewrite negb_true_iff, Nat.eqb_neq in Hvc. apply lt_0_INR. lia.
Qed.

(** ---- start symbols ---- *)
Theorem start_tags_closed zs : zs <> [] ->
  map exp (start_tags zs) = map (fun z => exp z / sumR (map exp zs)) zs.
Proof.
  intros H. pose proof (sumR_exp_pos zs H) as Hz. unfold start_tags. rewrite map_map. apply map_ext.
  intros z. rewrite exp_plus, exp_ln; [unfold Rdiv; lra|]. apply Rdiv_lt_0_compat; lra.
Qed.

Theorem start_tags_sum zs : zs <> [] -> sumR (map exp (start_tags zs)) = 1.
Proof.
  intros H. pose proof (sumR_exp_pos zs H) as Hz. rewrite start_tags_closed by auto.
  rewrite (map_ext _ (fun z => / sumR (map exp zs) * exp z)) by (intros; unfold Rdiv; lra).
  rewrite <- (map_map exp (fun y => / sumR (map exp zs) * y)), sumR_scale. field. lra.
Qed.

(** ---- programs ---- *)
Lemma exp_sumR l : exp (sumR l) = prodR (map exp l).
Proof. unfold sumR, prodR; induction l; simpl; [apply exp_0 | rewrite exp_plus, IHl; reflexivity]. Qed.

Lemma fold_left_sum (tag : nt * sym -> R) d a :
  fold_left (fun acc xs => acc + tag xs) d a = a + sumR (map tag d).
Proof. revert a; unfold sumR; induction d; intros a0; simpl; [lra | rewrite IHd; lra]. Qed.

Lemma fold_left_prod (w : nt * sym -> R) d a :
  fold_left (fun acc xs => acc * w xs) d a = a * prodR (map w d).
Proof. revert a; unfold prodR; induction d; intros a0; simpl; [lra | rewrite IHd; lra]. Qed.

(** the log-probability is the sum of the tags along the derivation *)
Theorem log_probability_sum tbl start tag p :
  log_probability tbl start tag p =
  option_map (fun d => sumR (map (fun xs => tag (fst xs) (snd xs)) d)) (derivation tbl start p).
Proof.
  unfold log_probability. rewrite reduce_is_fold. destruct (derivation tbl start p) as [d|]; cbn; auto.
  rewrite (fold_left_sum (fun xs => tag (fst xs) (snd xs))). f_equal; lra.
Qed.

Theorem probability_prod tbl start w p :
  probability tbl start w p =
  option_map (fun d => prodR (map (fun xs => w (fst xs) (snd xs)) d)) (derivation tbl start p).
Proof.
  unfold probability. rewrite reduce_is_fold. destruct (derivation tbl start p) as [d|]; cbn; auto.
  rewrite (fold_left_prod (fun xs => w (fst xs) (snd xs))). f_equal; lra.
Qed.

(** converting the grammar with exp commutes with taking the probability of a program *)
Theorem exp_log_probability tbl start tag p :
  option_map exp (log_probability tbl start tag p) = probability tbl start (fun x s => exp (tag x s)) p.
Proof.
  rewrite log_probability_sum, probability_prod. destruct (derivation tbl start p) as [d|]; cbn; auto.
  rewrite exp_sumR, map_map. reflexivity.
Qed.

(** U layer: the converted grammar is renormalised by Z(S) = sum of exp(tags of S) *)
Theorem exp_log_probability_u tbl start tag (Zs : nt -> R) p :
  (forall x, Zs x <> 0) ->
  probability tbl start (fun x s => exp (tag x s) / Zs x) p =
  option_map (fun d => exp (sumR (map (fun xs => tag (fst xs) (snd xs)) d)) / prodR (map (fun xs => Zs (fst xs)) d))
             (derivation tbl start p).
Proof.
  intros Hz. rewrite probability_prod. destruct (derivation tbl start p) as [d|]; cbn; auto. f_equal.
  rewrite exp_sumR, map_map. unfold prodR. induction d as [|xs r IH]; simpl; [field; lra|].
  rewrite IH. field. split; auto.
  clear IH. induction r; simpl; [lra|]. apply Rmult_integral_contrapositive; auto.
Qed.

(** ---- the hypotheses are satisfiable: a non-terminal with two derivable
    primitives out of a slice of three, two variables, one constant, the
    code's epsilon, variable probability 0.2 ---- *)
Definition eps7 : R := / 10000000.
Definition example_conf : ntconf :=
  {| eps := eps7; vprob := 2 / 10; tvo := true; slice := [1; -2; 3]; idx := [0%nat; 2%nat]; nv := 2; nc := 1 |}.

Example example_conf_ok : conf_ok example_conf.
Proof.
  unfold conf_ok, example_conf, eps7; cbn -[INR]. repeat split; try lra.
  - repeat constructor.
  - left; discriminate.
  - intros _. unfold p0, vmass, eps_eff, has_vc, no_prims; cbn. lra.
Qed.

Example example_sum : sumR (weights example_conf) = 1 - 3 * eps7.
Proof.
  rewrite (weights_sum _ example_conf_ok). unfold delta, has_vc, eps_eff, example_conf; cbn. lra.
Qed.

Example example_variable_mass : sumR (vc_weights example_conf) = 2 / 10 - 3 * eps7.
Proof.
  rewrite (variable_mass _ example_conf_ok). unfold delta, vmass, has_vc, no_prims, eps_eff, example_conf; cbn. lra.
Qed.

(** ---- statements used by Props/C19.v ---- *)
Lemma delta_value : forall c,
  delta c = if negb (Nat.eqb (nv c + nc c) 0) && tvo c
            then eps c * (INR (nv c) * (INR (nv c) - 1) / 2 + INR (nv c) * INR (nc c)) else 0.
Proof.
  intros c. unfold delta, has_vc, eps_eff.
  destruct (negb (Nat.eqb (nv c + nc c) 0)), (tvo c); cbn; auto using Rmult_0_l.
Qed.

Lemma normalised_no_trick : forall c,
  0 < vprob c < 1 -> 0 <= eps c -> Forall (fun i => (i < length (slice c))%nat) (idx c) ->
  (idx c <> [] \/ (0 < nv c + nc c)%nat) -> tvo c = false ->
  sumR (weights c) = 1 /\ Forall (fun w => 0 < w) (weights c).
Proof.
  intros c Hv He Hi Hne Ht. pose proof (conf_ok_no_tvo c Hv He Hi Hne Ht) as Hok. split.
  - rewrite (weights_sum c Hok). unfold delta, eps_eff. rewrite Ht. destruct (has_vc c); rewrite ?Rmult_0_l; apply Rminus_0_r.
  - apply weights_positive; auto.
Qed.

Lemma variable_mass_cases : forall c, conf_ok c ->
  sumR (vc_weights c) = vmass c - delta c /\ sumR (prim_weights c) = pmass c /\
  (idx c <> [] -> (0 < nv c + nc c)%nat -> vmass c = vprob c /\ pmass c = 1 - vprob c) /\
  (idx c = [] -> vmass c = 1 /\ pmass c = 0) /\
  ((nv c + nc c = 0)%nat -> vmass c = 0 /\ pmass c = 1).
Proof.
  intros c Hok. split; [apply variable_mass; auto|]. split; [apply prim_mass; auto|].
  destruct Hok as (_ & _ & _ & Hne & _).
  unfold vmass, pmass, has_vc, no_prims. repeat split.
  - destruct (idx c); [congruence|]. destruct (Nat.eqb_spec (nv c + nc c) 0); [exfalso; apply (Nat.lt_irrefl 0); congruence | reflexivity].
  - destruct (idx c); [congruence|]. destruct (Nat.eqb_spec (nv c + nc c) 0); [exfalso; apply (Nat.lt_irrefl 0); congruence | reflexivity].
  - rewrite H. destruct Hne as [Hne|Hne]; [congruence|].
    destruct (Nat.eqb_spec (nv c + nc c) 0) as [E|E]; [rewrite E in Hne; exfalso; apply (Nat.lt_irrefl 0); auto | reflexivity].
  - rewrite H; reflexivity.
  - rewrite H; reflexivity.
  - rewrite H. destruct Hne as [Hne|Hne]; [|rewrite H in Hne; exfalso; apply (Nat.lt_irrefl 0); auto].
    destruct (idx c); [congruence|reflexivity].
Qed.

Lemma normalised_u : forall c, conf_ok c ->
  sumR (u_weights c) = 1 /\ Forall (fun w => 0 < w) (u_weights c) /\
  u_weights c = map (fun w => w / (1 - delta c)) (closed c) /\
  sumR (map (fun w => w / sumR (weights c)) (vc_weights c)) = (vmass c - delta c) / (1 - delta c).
Proof.
  intros c Hok. repeat split.
  - apply u_weights_sum; auto.
  - apply u_weights_positive; auto.
  - apply u_weights_closed; auto.
  - apply u_variable_mass; auto.
Qed.

Lemma start_normalised : forall zs, zs <> [] ->
  sumR (map exp (start_tags zs)) = 1 /\ Forall (fun w => 0 < w) (map exp (start_tags zs)).
Proof. intros zs H. split; [apply start_tags_sum; auto | apply Forall_exp_pos]. Qed.

Lemma nonvacuous : conf_ok example_conf /\ sumR (weights example_conf) = 1 - 3 * eps7.
Proof. split; [exact example_conf_ok | exact example_sum]. Qed.
