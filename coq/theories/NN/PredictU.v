(** Real-number model of the U layer on unambiguous grammars whose rules have
    several alternatives and which have several start symbols
    (synth/nn/u_grammar_predictor.py: tensor2log_prob_grammar 177-254 tags every
    alternative of a primitive P with the SAME entry y[index of P] of the slice;
    log_probability 51-62; tagged_u_grammar.py: ProbUGrammar.probability).

    For one non-terminal S this is the [ntconf] of NN/Predict.v whose [idx] lists
    the position of P once per alternative of P ([alts_idx]); the theorems of
    NN/PredictProofs.v hold for any [idx], NN/PredictUProofs.v specialises the
    closed form.  Programs: the tags are indexed by (S, P, alternative).

    The model follows the REPAIRED code in two places:
    - [ulog_probability] (proposed fix C19b-1): the log-probability of the start
      symbol that derives the program is part of the sum, as its probability is
      part of ProbUGrammar.probability;
    - [nv c] / [nc c] of the [ntconf] count the TAGGED DERIVATIONS of variables /
      constants, i.e. their (symbol, alternative) entries (a function-typed
      variable can have several from one non-terminal): the variable mass is
      shared uniformly by these entries (proposed fix C19b-2; the pinned code
      divides by the number of symbols and tags every entry).
    Nothing here is extracted. *)
From Coq Require Import Reals List Bool Arith.
From PS Require Import Base.Prog Gram.Det Gram.U NN.Encode NN.EncodeU NN.Predict.
Import ListNotations.
Local Open Scope R_scope.

(** [l] = the primitive rules of S as (position of P in the slice, number of
    alternatives of P); the tags of S are listed rule by rule, alternative by alternative *)
Definition alts_idx (l : list (nat * nat)) : list nat := flat_map (fun pn => repeat (fst pn) (snd pn)) l.
(** sum over all (P, alternative) derivable at S of exp(x_P) *)
Definition alts_sum (sl : list R) (l : list (nat * nat)) : R :=
  sumR (map (fun pn => INR (snd pn) * exp (nth (fst pn) sl 0)) l).
(** every alternative of P gets pmass * exp(x_P) / alts_sum *)
Definition closed_alts (c : ntconf) (l : list (nat * nat)) : list R :=
  flat_map (fun pn => repeat (pmass c * exp (nth (fst pn) (slice c) 0) / alts_sum (slice c) l) (snd pn)) l.

(** softmax of the start entries selected for the grammar *)
Definition softmax (zs : list R) : list R := map (fun z => exp z / sumR (map exp zs)) zs.

Section UPrograms.
  Variable tbl : utable.

  Definition tag_of (tag : unt -> sym -> ualt -> R) (st : ustep) : R := tag (fst (fst st)) (snd (fst st)) (snd st).
  Definition nt_of_step (st : ustep) : unt := fst (fst st).

  (** log_probability(program, start): reduce with + on the tags from 0, first derivation *)
  Definition ulog_probability_at (tag : unt -> sym -> ualt -> R) (x : unt) (p : prog) : option R :=
    hd_error (ureduce (fun acc y s a => acc + tag y s a) tbl [x] 0 p).

  (** log_probability(program): the first start symbol that derives the program,
      its start tag plus the sum along the first derivation (None = IndexError
      when no start symbol derives it) *)
  Fixpoint ulog_probability (stag : unt -> R) (tag : unt -> sym -> ualt -> R) (starts : list unt) (p : prog)
    : option R :=
    match starts with
    | [] => None
    | x :: r => if ucontains_at tbl x p then option_map (Rplus (stag x)) (ulog_probability_at tag x p)
                else ulog_probability stag tag r p
    end.

  (** ProbUGrammar.probability(program, start): 0 outside, else reduce with * from 1, first derivation *)
  Definition uprobability_at_R (w : unt -> sym -> ualt -> R) (x : unt) (p : prog) : R :=
    if ucontains_at tbl x p then
      match ureduce (fun acc y s a => acc * w y s a) tbl [x] 1 p with q :: _ => q | [] => 0 end
    else 0.

  (** ProbUGrammar.probability(program) *)
  Fixpoint uprobability_R (sw : unt -> R) (w : unt -> sym -> ualt -> R) (starts : list unt) (p : prog) : R :=
    match starts with
    | [] => 0
    | x :: r => if ucontains_at tbl x p then sw x * uprobability_at_R w x p else uprobability_R sw w r p
    end.
End UPrograms.
