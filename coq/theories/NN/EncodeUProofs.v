(** Proofs about NN/EncodeU.v:
    - the derivation lists of [uderiv_rec] go through the same (information,
      next) pairs as Gram/U.v's [uprob_rec]: same number of derivations, and a
      program of the grammar has at least one;
    - every step of a derivation is a rule and an alternative of the table;
    - the layout of the U layer is the bijection of NN/EncodeProofs.v for the
      (abstraction, primitive) pairs of the tables: one index per primitive,
      whatever the number of its alternatives;
    - [uencode] marks exactly the primitive steps of the derivations. *)
From Coq Require Import ZArith NArith QArith List Bool Arith Lia Setoid.
From PS Require Import Base.ListX Base.Sexp Base.Ty Base.Value Base.Prog Gram.Det Gram.U Gram.UProofs
     NN.Encode NN.EncodeProofs NN.EncodeU.
Import ListNotations.
Local Open Scope nat_scope.

Lemma unt_eqb_true (a b : unt) : unt_eqb a b = true <-> a = b.
Proof.
  destruct a as [t s], b as [t' s']. unfold unt_eqb. cbn.
  rewrite andb_true_iff, ty_eqb_spec, sexp_eqb_spec. split; [intros [-> ->]; reflexivity|intros E; inversion E; auto].
Qed.

(** ---- unfolding ---- *)
Lemma uderiv_rec_fun tbl f args x info :
  uderiv_rec tbl (PFun f args) (UAt x) info =
  match ualts_of tbl x f with
  | Some alts => udthread (uderiv_rec tbl) args (first_steps info x f alts)
  | None => []
  end.
Proof. reflexivity. Qed.

Lemma map_snd_flat_map {X Y Z} (F : X -> list (Y * Z)) l :
  map snd (flat_map F l) = flat_map (fun x => map snd (F x)) l.
Proof. induction l as [|a r IH]; cbn; [reflexivity|]. rewrite map_app, IH. reflexivity. Qed.

Lemma flat_map_through_map {X Y Z} (h : X -> Y) (G : Y -> list Z) (F : X -> list Z) l :
  (forall x, F x = G (h x)) -> flat_map F l = flat_map G (map h l).
Proof. intros H. induction l as [|a r IH]; cbn; [reflexivity|]. rewrite H, IH. reflexivity. Qed.

(** ---- same (information, next) pairs as uprob_rec ---- *)
Lemma udthread_snd tbl w args :
  Forall (fun a => forall h i, map snd (uderiv_rec tbl a h i) = map snd (uprob_rec tbl w a h i)) args ->
  forall (l1 : list upartial) (l2 : list (option Q * (list unt * upos))),
    map snd l1 = map snd l2 ->
    map snd (udthread (uderiv_rec tbl) args l1) = map snd (upthread (uprob_rec tbl w) args l2).
Proof.
  induction 1 as [|a ar Ha _ IH]; intros l1 l2 E; cbn [udthread upthread]; [exact E|].
  apply IH. rewrite !map_snd_flat_map.
  rewrite (flat_map_through_map snd (fun st : list unt * upos => map snd (uderiv_rec tbl a (snd st) (fst st))) _ l1).
  2:{ intros pp. rewrite map_map. cbn [snd]. reflexivity. }
  rewrite (flat_map_through_map snd (fun st : list unt * upos => map snd (uprob_rec tbl w a (snd st) (fst st))) _ l2).
  2:{ intros pp. rewrite map_map. cbn [snd]. reflexivity. }
  rewrite E. apply flat_map_ext_in. intros st _. apply Ha.
Qed.

Theorem uderiv_rec_snd tbl w p : forall here info,
  map snd (uderiv_rec tbl p here info) = map snd (uprob_rec tbl w p here info).
Proof.
  induction p as [s|f ps IH] using prog_ind'; intros [x|] info; try reflexivity.
  - cbn [uderiv_rec uprob_rec]. destruct (ualts_of tbl x s) as [alts|]; [|reflexivity].
    unfold first_steps. rewrite !map_map. reflexivity.
  - rewrite uderiv_rec_fun, uprob_rec_fun. destruct (ualts_of tbl x f) as [alts|]; [|reflexivity].
    apply udthread_snd; auto. unfold first_steps. rewrite !map_map. reflexivity.
Qed.

(** the number of derivations is the one of Gram/U.v *)
Theorem uderivations_from_count tbl x p : length (uderivations_from tbl x p) = uderivations tbl x p.
Proof.
  unfold uderivations_from, uderivations. rewrite map_length.
  rewrite <- (map_length snd), (uderiv_rec_snd tbl [] p), map_length. reflexivity.
Qed.

(** membership (with the arity test, on programs whose arities agree with the
    grammar) = there is a derivation *)
Theorem ucontains_at_derivations tbl x p : shape_ok tbl x p = true ->
  ucontains_at tbl x p = negb (Nat.eqb (length (uderivations_from tbl x p)) 0).
Proof.
  intros Hs. rewrite uderivations_from_count, (uderivations_spec tbl x p Hs). apply ucontains_at_spec; auto.
Qed.

Corollary member_has_derivation tbl x p : shape_ok tbl x p = true -> ucontains_at tbl x p = true ->
  exists d rest, uderivations_from tbl x p = d :: rest.
Proof.
  intros Hs Hc. rewrite (ucontains_at_derivations tbl x p Hs) in Hc.
  destruct (uderivations_from tbl x p) as [|d rest]; [discriminate|eauto].
Qed.

(** ---- every step is a rule and an alternative of the table ---- *)
Definition step_ok (tbl : utable) (st : ustep) : Prop :=
  exists alts, ualts_of tbl (fst (fst st)) (snd (fst st)) = Some alts /\ In (snd st) alts.

Lemma udthread_steps tbl args :
  Forall (fun a => forall h i, Forall (fun pp : upartial => Forall (step_ok tbl) (fst pp)) (uderiv_rec tbl a h i)) args ->
  forall l : list upartial, Forall (fun pp : upartial => Forall (step_ok tbl) (fst pp)) l ->
    Forall (fun pp : upartial => Forall (step_ok tbl) (fst pp)) (udthread (uderiv_rec tbl) args l).
Proof.
  induction 1 as [|a ar Ha _ IH]; intros l Hl; cbn [udthread]; [exact Hl|].
  apply IH. rewrite Forall_forall in *. intros pp Hin. apply in_flat_map in Hin as (pp0 & Hin0 & Hm).
  apply in_map_iff in Hm as (alt & <- & Halt). cbn [fst]. apply Forall_app. split.
  - apply Hl; auto.
  - specialize (Ha (snd (snd pp0)) (fst (snd pp0))). rewrite Forall_forall in Ha. apply Ha; auto.
Qed.

Theorem uderiv_rec_steps tbl p : forall here info,
  Forall (fun pp : upartial => Forall (step_ok tbl) (fst pp)) (uderiv_rec tbl p here info).
Proof.
  assert (Hfirst : forall info x s alts, ualts_of tbl x s = Some alts ->
            Forall (fun pp : upartial => Forall (step_ok tbl) (fst pp)) (first_steps info x s alts)).
  { intros info x s alts E. unfold first_steps. apply Forall_forall. intros pp Hin.
    apply in_map_iff in Hin as (alt & <- & Hin). cbn [fst]. constructor; [|constructor].
    exists alts. cbn. auto. }
  induction p as [s|f ps IH] using prog_ind'; intros [x|] info; try constructor.
  - cbn [uderiv_rec]. destruct (ualts_of tbl x s) as [alts|] eqn:E; [|constructor]. apply Hfirst; auto.
  - rewrite uderiv_rec_fun. destruct (ualts_of tbl x f) as [alts|] eqn:E; [|constructor].
    apply udthread_steps; auto.
Qed.

Corollary uderivations_steps tbl starts p d :
  In d (uderivations_all tbl starts p) -> Forall (step_ok tbl) d.
Proof.
  unfold uderivations_all, uderivations_from. intros H. apply in_flat_map in H as (x & _ & H).
  apply in_map_iff in H as (pp & <- & H).
  pose proof (uderiv_rec_steps tbl p (UAt x) []) as Hall. rewrite Forall_forall in Hall. apply Hall; auto.
Qed.

(** reduce_derivations is, by construction, one left fold per derivation *)
Theorem ureduce_is_fold {T} (f : T -> unt -> sym -> ualt -> T) tbl starts init p :
  ureduce f tbl starts init p = map (ufold f init) (uderivations_all tbl starts p).
Proof. reflexivity. Qed.

(** ---- the table with the alternatives forgotten ---- *)
Lemma nt_eqb_view x y : nt_eqb (nt_of_unt x) (nt_of_unt y) = unt_eqb x y.
Proof. unfold nt_eqb, nt_of_unt, unt_eqb. cbn. rewrite andb_true_r. reflexivity. Qed.

Lemma rules_of_view tbl x :
  rules_of (det_view tbl) (nt_of_unt x)
  = option_map (map (fun r : urule => (fst r, (@nil argnt, L [])))) (urules_of tbl x).
Proof.
  unfold rules_of, urules_of, det_view. induction tbl as [|[y rs] r IH]; cbn; [reflexivity|].
  rewrite nt_eqb_view. destruct (unt_eqb x y); auto.
Qed.

Lemma rule_of_view tbl x s alts :
  ualts_of tbl x s = Some alts -> rule_of (det_view tbl) (nt_of_unt x) s = Some ([], L []).
Proof.
  unfold rule_of, ualts_of. rewrite rules_of_view. destruct (urules_of tbl x) as [rs|]; [|discriminate]. cbn.
  induction rs as [|[s' a'] r IH]; cbn; [discriminate|]. destruct (sym_eqb s s'); auto.
Qed.

Section ULayoutProofs.
  Variable abs : unt -> akey.

  Lemma abs_nt_view x : abs_nt abs (nt_of_unt x) = abs x.
  Proof. destruct x; reflexivity. Qed.

  (** the pairs of the layer: (abstraction of S, P) for the primitive rules S -> P of the tables *)
  Theorem raw_pairs_view gs k s :
    In (k, s) (raw_pairs (abs_nt abs) (map det_view gs)) <->
    exists tbl x rs alts, In tbl gs /\ In (x, rs) tbl /\ In (s, alts) rs /\ is_prim s = true /\ k = abs x.
  Proof.
    unfold raw_pairs. rewrite in_flat_map. split.
    - intros (g & Hg & H). apply in_map_iff in Hg as (tbl & <- & Hg).
      apply in_flat_map in H as (xr & Hxr & H). unfold det_view in Hxr.
      apply in_map_iff in Hxr as ([x rs] & <- & Hxr). unfold nt_pairs in H. cbn [fst snd] in H.
      apply in_map_iff in H as (s' & [= <- <-] & H). apply filter_In in H as [H Hp].
      rewrite map_map in H. cbn [fst] in H. apply in_map_iff in H as ([s2 alts] & <- & H).
      exists tbl, x, rs, alts. rewrite abs_nt_view. auto.
    - intros (tbl & x & rs & alts & Hg & Hx & Hs & Hp & ->).
      exists (det_view tbl). split; [apply in_map; auto|].
      apply in_flat_map. exists (nt_of_unt x, map (fun r : urule => (fst r, (@nil argnt, L []))) rs). split.
      + unfold det_view. apply in_map_iff. exists (x, rs); auto.
      + unfold nt_pairs. cbn [fst snd]. rewrite abs_nt_view. apply in_map. apply filter_In. split; auto.
        rewrite map_map. cbn [fst]. apply in_map_iff. exists (s, alts); auto.
  Qed.

  Lemma step_in_layer gs tbl st :
    In tbl gs -> step_ok tbl st -> is_prim (snd (fst st)) = true ->
    In (abs (fst (fst st)), snd (fst st)) (raw_pairs (abs_nt abs) (map det_view gs)).
  Proof.
    intros Hg (alts & E & _) Hp. rewrite <- abs_nt_view.
    apply (rule_in_layer (abs_nt abs) (map det_view gs) (det_view tbl) _ _ ([], L [])); auto.
    - apply in_map; auto.
    - eapply rule_of_view; eauto.
  Qed.

  (** ---- encode ---- *)
  Definition umarks_of (lay : layout_t) (d : list ustep) : list nat :=
    flat_map (fun st : ustep =>
                if is_prim (snd (fst st)) then
                  match index_in lay (abs (fst (fst st))) (snd (fst st)) with Some i => [i] | None => [] end
                else []) d.

  Lemma ufold_marks lay d : forall acc, ufold (umark abs lay) acc d = acc ++ umarks_of lay d.
  Proof.
    unfold ufold. induction d as [|[[x s] alt] r IH]; intros acc; cbn; [rewrite app_nil_r; auto|].
    rewrite IH. unfold umark. destruct (is_prim s); cbn; auto.
    destruct (index_in lay (abs x) s); cbn; auto. rewrite <- app_assoc; reflexivity.
  Qed.

  Lemma uencode_marks gs tbl starts p :
    uencode abs gs tbl starts p = flat_map (umarks_of (ulayout abs gs)) (uderivations_all tbl starts p).
  Proof.
    unfold uencode, ureduce. rewrite flat_map_concat_map. f_equal. apply map_ext. intros d.
    apply (ufold_marks _ d []).
  Qed.

  (** encode marks exactly the primitive steps of the derivations of the program
      (all start symbols); each of them has an index, shared by the alternatives
      of the primitive; variables and constants have none. *)
  Theorem uencode_exact gs tbl starts p :
    In tbl gs ->
    (forall i, In i (uencode abs gs tbl starts p) <->
               exists d x s alt, In d (uderivations_all tbl starts p) /\ In (x, s, alt) d /\ is_prim s = true /\
                                 uindex abs gs x s = Some i) /\
    (forall d x s alt, In d (uderivations_all tbl starts p) -> In (x, s, alt) d -> is_prim s = true ->
                       exists i, uindex abs gs x s = Some i /\ In i (uencode abs gs tbl starts p)) /\
    (forall x s, is_prim s = false -> uindex abs gs x s = None).
  Proof.
    intros Hg.
    assert (Hiff : forall i, In i (uencode abs gs tbl starts p) <->
               exists d x s alt, In d (uderivations_all tbl starts p) /\ In (x, s, alt) d /\ is_prim s = true /\
                                 uindex abs gs x s = Some i).
    { intros i. rewrite uencode_marks, in_flat_map. unfold umarks_of, uindex. split.
      - intros (d & Hd & H). apply in_flat_map in H as ([[x s] alt] & Hin & H). cbn [fst snd] in H.
        destruct (is_prim s) eqn:Ep; [|contradiction].
        destruct (index_in (ulayout abs gs) (abs x) s) as [j|] eqn:Ej; [|contradiction].
        destruct H as [->|[]]. exists d, x, s, alt. auto.
      - intros (d & x & s & alt & Hd & Hin & Hp & Hi). exists d. split; auto.
        apply in_flat_map. exists (x, s, alt). split; auto. cbn [fst snd]. rewrite Hp, Hi. left; auto. }
    repeat split.
    - apply Hiff.
    - apply Hiff.
    - intros d x s alt Hd Hin Hp.
      pose proof (uderivations_steps tbl starts p d Hd) as Hall. rewrite Forall_forall in Hall.
      pose proof (step_in_layer gs tbl (x, s, alt) Hg (Hall _ Hin) Hp) as Hpair. cbn [fst snd] in Hpair.
      destruct (proj2 (index_defined (abs_nt abs) (map det_view gs) (abs x) s) Hpair) as [i Hi].
      exists i. split; [exact Hi|]. apply Hiff. exists d, x, s, alt. auto.
    - intros x s Hp. apply index_only_primitives; auto.
  Qed.

  (** unambiguous case: exactly one derivation *)
  Corollary uencode_unique gs tbl starts p d :
    In tbl gs -> uderivations_all tbl starts p = [d] ->
    forall i, In i (uencode abs gs tbl starts p) <->
              exists x s alt, In (x, s, alt) d /\ is_prim s = true /\ uindex abs gs x s = Some i.
  Proof.
    intros Hg Hd i. rewrite (proj1 (uencode_exact gs tbl starts p Hg) i), Hd. split.
    - intros (d' & x & s & alt & [<-|[]] & H). eauto.
    - intros (x & s & alt & H). exists d, x, s, alt. cbn; auto.
  Qed.

  (** the layout: the bijection of C19_layout for the pairs of the tables *)
  Theorem ulayout_bijection gs :
    (forall k s k' s' i, index_in (ulayout abs gs) k s = Some i -> index_in (ulayout abs gs) k' s' = Some i ->
                         k = k' /\ s = s') /\
    (forall k s i, index_in (ulayout abs gs) k s = Some i -> i < uslice_size abs gs) /\
    (forall i, i < uslice_size abs gs -> exists k s, index_in (ulayout abs gs) k s = Some i) /\
    (forall k s, (exists i, index_in (ulayout abs gs) k s = Some i) <->
                 exists tbl x rs alts, In tbl gs /\ In (x, rs) tbl /\ In (s, alts) rs /\ is_prim s = true /\ k = abs x).
  Proof.
    destruct (layout_bijection (abs_nt abs) (map det_view gs)) as (H1 & H2 & H3 & H4 & _).
    repeat split; auto.
    - eapply H1; eauto.
    - eapply H1; eauto.
    - intros H. apply raw_pairs_view, H4; auto.
    - intros H. apply H4, raw_pairs_view; auto.
  Qed.

  (** start entries: after the slices, one per distinct abstraction of a start symbol *)
  Theorem ustart_entries gs starts x :
    In x starts ->
    exists i, ustart_index abs gs starts x = Some i /\
              uslice_size abs gs <= i < uoutput_size abs gs starts /\
              nth_error (ustart_keys abs starts) (i - uslice_size abs gs) = Some (abs x).
  Proof.
    intros H.
    destruct (start_entries (abs_nt abs) (map det_view gs) (map nt_of_unt starts) (nt_of_unt x) (in_map _ _ _ H))
      as (i & Hi & Hr & Hn).
    exists i. rewrite abs_nt_view in Hn. auto.
  Qed.
End ULayoutProofs.

(** ---- a concrete instance: the grammar of the escaped regression
      S -> + | C0 V1 | V0 C1,  S -> 1,  S -> var0,  C_i -> 1 | 2,  V_i -> var0 | 0
    with bigram contexts in the states; (+ 1 var0) has exactly one derivation,
    through the first alternative; both alternatives of + share one index ---- *)
Module UEncExample.
  Local Open Scope Z_scope.
  Definition int := TPrim 0%N.
  Definition plus := SPrim 100%N (TArrow int (TArrow int int)).
  Definition one := SPrim 101%N int.
  Definition two := SPrim 102%N int.
  Definition zero := SPrim 103%N int.
  Definition var0 := SVar 0 int.
  Definition pred (i : Z) : sexp := L [A 3; L [A 5; sexp_of_sym plus]; L [A 0; A i]].
  Definition st (preds : list sexp) (name : Z) : sexp := L [A 3; L (A 4 :: A 2 :: preds); L [A 0; A name]].
  Definition root : unt := (int, st [] 0).
  Definition C0 : unt := (int, st [pred 0] 1).
  Definition C1 : unt := (int, st [pred 1] 1).
  Definition V0 : unt := (int, st [pred 0] 2).
  Definition V1 : unt := (int, st [pred 1] 2).
  Definition tbl : utable :=
    [ (root, [ (plus, [[C0; V1]; [V0; C1]]); (one, [[]]); (var0, [[]]) ]);
      (C0, [ (one, [[]]); (two, [[]]) ]); (C1, [ (one, [[]]); (two, [[]]) ]);
      (V0, [ (var0, [[]]); (zero, [[]]) ]); (V1, [ (var0, [[]]); (zero, [[]]) ]) ].
  Definition p1 := PFun plus [PLeaf one; PLeaf var0].
  Definition p2 := PFun plus [PLeaf zero; PLeaf two].

  Example ex_unique :
    uderivations_all tbl [root] p1 = [[(root, plus, [C0; V1]); (C0, one, []); (V1, var0, [])]] /\
    uderivations_all tbl [root] p2 = [[(root, plus, [V0; C1]); (V0, zero, []); (C1, two, [])]] /\
    uderivations_all tbl [root] (PFun plus [PLeaf one; PLeaf two]) = [].
  Proof. repeat split; vm_compute; reflexivity. Qed.

  Example ex_layout :
    uslice_size abs_bigram_u [tbl] = 8%nat /\ uoutput_size abs_bigram_u [tbl] [root] = 9%nat /\
    uencode abs_bigram_u [tbl] tbl [root] p1 = [0; 2]%nat /\
    uencode abs_bigram_u [tbl] tbl [root] p2 = [0; 4; 6]%nat /\
    uslice_size abs_presence_u [tbl] = 4%nat /\ uslice_size abs_identity_u [tbl] = 8%nat.
  Proof. repeat split; vm_compute; reflexivity. Qed.
End UEncExample.

(** ---- statements used by Props/C19.v ---- *)
Lemma u_derivations_facts : forall tbl starts x p,
  length (uderivations_from tbl x p) = uderivations tbl x p /\
  (forall d, In d (uderivations_all tbl starts p) -> Forall (step_ok tbl) d) /\
  (forall (T : Type) (f : T -> unt -> sym -> ualt -> T) init,
      ureduce f tbl starts init p = map (ufold f init) (uderivations_all tbl starts p)).
Proof.
  intros tbl starts x p. split; [apply uderivations_from_count|]. split; [apply uderivations_steps|].
  intros T f init. apply ureduce_is_fold.
Qed.

Lemma u_example :
  uderivations_all UEncExample.tbl [UEncExample.root] UEncExample.p1
  = [[(UEncExample.root, UEncExample.plus, [UEncExample.C0; UEncExample.V1]);
      (UEncExample.C0, UEncExample.one, []); (UEncExample.V1, UEncExample.var0, [])]] /\
  uencode abs_bigram_u [UEncExample.tbl] UEncExample.tbl [UEncExample.root] UEncExample.p1 = [0; 2]%nat /\
  uencode abs_bigram_u [UEncExample.tbl] UEncExample.tbl [UEncExample.root] UEncExample.p2 = [0; 4; 6]%nat.
Proof. repeat split; vm_compute; reflexivity. Qed.
