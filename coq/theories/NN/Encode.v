(** Discrete part of the prediction layers (synth/nn/det_grammar_predictor.py,
    u_grammar_predictor.py, abstractions.py):

    - [reduce_rec]: DetGrammar.__reduce_derivations_rec__ on the generic rule
      tables of Gram/Det.v (the accumulator is threaded in pre-order; no
      membership or arity test, a missing rule is the KeyError = None);
    - the layout computed by the constructor of the layers for a set of
      grammars sharing abstractions: abstraction key of every non-terminal,
      set of primitives per key, contiguous slice per key, index of every
      (key, primitive) pair, output size;
    - [encode]: which indices DetGrammarPredictorLayer.encode sets for a program;
    - the abstraction functions of abstractions.py on CFG non-terminals and the
      view of a compiled CFG (Gram/Cfg.v) as a rule table.

    Executable and extracted (Run/C19.v).  Proofs are in NN/EncodeProofs.v. *)
From Coq Require Import ZArith NArith List Bool Arith.
From PS Require Import Base.ListX Base.Sexp Base.Ty Base.Value Base.Prog Gram.Det Gram.Cfg.
Import ListNotations.

(** ---- reduce_derivations ---- *)
Section Reduce.
  Context {T : Type}.
  Variable f : T -> nt -> sym -> T.          (* reduce(value, S, P, _) *)

  Fixpoint reduce_rec (tbl : table) (p : prog) (acc : T) (here : pos) (info : list argnt)
    : option (T * (list argnt * pos)) :=
    match here with
    | End => None                                         (* self.rules[(UnknownType, ...)] : KeyError *)
    | At x =>
      match p with
      | PLeaf s =>
        match rule_of tbl x s with
        | Some r => Some (f acc x s, derive info r)
        | None => None
        end
      | PFun g args =>
        match rule_of tbl x g with
        | Some r =>
          (fix go (args : list prog) (st : T * (list argnt * pos)) {struct args}
             : option (T * (list argnt * pos)) :=
             match args with
             | [] => Some st
             | a :: ar =>
               match reduce_rec tbl a (fst st) (snd (snd st)) (fst (snd st)) with
               | Some st' => go ar st'
               | None => None
               end
             end) args (f acc x g, derive info r)
        | None => None
        end
      end
    end.

  (** reduce_derivations(reduce, init, program, start) *)
  Definition reduce_derivations (tbl : table) (start : nt) (init : T) (p : prog) : option T :=
    match reduce_rec tbl p init (At start) [] with Some (a, _) => Some a | None => None end.
End Reduce.

(** The derivation of a program: the (non-terminal, symbol) pairs in the order
    in which reduce is called. *)
Definition snoc_pair (acc : list (nt * sym)) (x : nt) (s : sym) : list (nt * sym) := acc ++ [(x, s)].
Definition derivation (tbl : table) (start : nt) (p : prog) : option (list (nt * sym)) :=
  reduce_derivations snoc_pair tbl start [] p.

(** ---- the layout ---- *)
Definition is_prim (s : sym) : bool := match s with SPrim _ _ => true | _ => false end.

(** first-occurrence de-duplication (insertion order of a Python dict) *)
Fixpoint dedupf {X} (eqb : X -> X -> bool) (l : list X) : list X :=
  match l with
  | [] => []
  | x :: r => x :: filter (fun y => negb (eqb x y)) (dedupf eqb r)
  end.

Fixpoint pos_of {X} (eqb : X -> X -> bool) (x : X) (l : list X) : option nat :=
  match l with
  | [] => None
  | y :: r => if eqb x y then Some 0 else option_map S (pos_of eqb x r)
  end.

Definition akey := sexp.                         (* abstraction keys: None = L [], (P, i) = L [P; i] *)
Definition layout_t : Type := list (akey * list sym).

Section Layout.
  Variable abs : nt -> akey.                     (* the abstraction function *)

  (** pairs (abstraction of S, P) for the primitives P derivable from S *)
  Definition nt_pairs (xr : nt * list drule) : list (akey * sym) :=
    map (fun s => (abs (fst xr), s)) (filter is_prim (map fst (snd xr))).
  Definition raw_pairs (gs : list table) : list (akey * sym) := flat_map (flat_map nt_pairs) gs.
  Definition raw_keys (gs : list table) : list akey :=
    flat_map (map (fun xr : nt * list drule => abs (fst xr))) gs.

  (** all_pairs: key -> set of primitives (keys in first-seen order; the order
      inside a set is the one Python's set iteration happens to give, here
      first-seen). *)
  Definition keys (gs : list table) : list akey := dedupf sexp_eqb (raw_keys gs).
  Definition prims_of (gs : list table) (k : akey) : list sym :=
    dedupf sym_eqb (map snd (filter (fun ks : akey * sym => sexp_eqb (fst ks) k) (raw_pairs gs))).
  Definition layout (gs : list table) : layout_t := map (fun k => (k, prims_of gs k)) (keys gs).

  (** output_size = sum(len(all_pairs[S])) *)
  Definition size_of (lay : layout_t) : nat := sumnat (map (fun kp : akey * list sym => length (snd kp)) lay).
  Definition output_size (gs : list table) : nat := size_of (layout gs).

  (** abs2index[key] = (start, length, {P: i});  index = start + i *)
  Fixpoint index_in (lay : layout_t) (k : akey) (s : sym) : option nat :=
    match lay with
    | [] => None
    | (k', ps) :: r =>
      if sexp_eqb k k' then pos_of sym_eqb s ps
      else option_map (Nat.add (length ps)) (index_in r k s)
    end.

  (** (key, start, length, primitives) of every slice *)
  Fixpoint slices_from (cur : nat) (lay : layout_t) : list (akey * (nat * nat) * list sym) :=
    match lay with
    | [] => []
    | (k, ps) :: r => (k, (cur, length ps), ps) :: slices_from (cur + length ps) r
    end.
  Definition slices (gs : list table) := slices_from 0 (layout gs).

  (** __reduce_encoder__ : sets tensor[start + symbol2index[P]] for primitives *)
  Definition mark (lay : layout_t) (acc : list nat) (x : nt) (s : sym) : list nat :=
    if is_prim s then
      match index_in lay (abs x) s with Some i => acc ++ [i] | None => acc end
    else acc.

  (** the indices encode sets to 1 (in the order of the derivation, with repetitions) *)
  Definition encode (gs : list table) (tbl : table) (start : nt) (p : prog) : option (list nat) :=
    reduce_derivations (mark (layout gs)) tbl start [] p.

  (** the 0/1 vector itself *)
  Definition encode_vec (gs : list table) (tbl : table) (start : nt) (p : prog) : option (list bool) :=
    match encode gs tbl start p with
    | Some m => Some (map (fun i => memb Nat.eqb i m) (seq 0 (output_size gs)))
    | None => None
    end.

  (** U layers: one extra entry per abstraction of a start symbol, after the slices *)
  Definition start_keys (starts : list nt) : list akey := dedupf sexp_eqb (map abs starts).
  Definition u_output_size (gs : list table) (starts : list nt) : nat :=
    output_size gs + length (start_keys starts).
  Definition start_index (gs : list table) (starts : list nt) (x : nt) : option nat :=
    option_map (Nat.add (output_size gs)) (pos_of sexp_eqb (abs x) (start_keys starts)).
End Layout.

(** ---- compiled CFGs as rule tables ---- *)
Definition sexp_of_ctx (g : ctx) : sexp :=
  L (map (fun si : sym * nat => L [sexp_of_sym (fst si); ofNat (snd si)]) g).
Definition sstate_of (g : ctx) (d : nat) : state := L [sexp_of_ctx g; ofNat d].     (* (ngram, depth) *)
Definition nt_of_cnt (x : cnt) : nt := (nt_type x, sstate_of (nt_ctx x) (nt_depth x), L []).
Definition argnt_of_cnt (x : cnt) : argnt := (nt_type x, sstate_of (nt_ctx x) (nt_depth x)).

Definition table_of_cfg (P : params) : table :=
  map (fun x : cnt =>
         (nt_of_cnt x,
          map (fun r : rule => (fst r, (map argnt_of_cnt (snd r), L []))) (crules P x)))
      (reachable P).
Definition start_of_cfg (P : params) : nt := nt_of_cnt (Cfg.start P).

(** ---- abstractions.py ---- *)
(** cfg_bigram_without_depth / ttcfg_bigram / ucfg_bigram: ngram.last() or None *)
Definition abs_bigram (x : nt) : akey :=
  match snd (fst x) with
  | L [L (pr :: _); _] => pr
  | _ => L []
  end.
(** primitive_presence *)
Definition abs_presence (x : nt) : akey := L [].
(** the identity (finest abstraction; not in abstractions.py, used as a control) *)
Definition abs_identity (x : nt) : akey := L [sexp_of_ty (fst (fst x)); snd (fst x)].

Definition abs_by_id (n : nat) : nt -> akey :=
  match n with
  | 0 => abs_presence
  | 1 => abs_bigram
  | _ => abs_identity
  end.
