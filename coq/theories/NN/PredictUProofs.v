(** Proofs about NN/PredictU.v: the closed form of the weights when a primitive
    has several alternatives, the start probabilities as a softmax, and the
    log-probability / probability of a program along its derivation in an
    unambiguous grammar with several start symbols. *)
From Coq Require Import Reals List Bool Arith Lia Lra.
From PS Require Import Base.Prog Gram.Det Gram.U Gram.UProofs NN.Encode NN.EncodeU NN.EncodeUProofs
     NN.Predict NN.PredictProofs NN.PredictU.
Import ListNotations.
Local Open Scope R_scope.

Lemma sumR_flat_map {X} (F : X -> list R) l : sumR (flat_map F l) = sumR (map (fun x => sumR (F x)) l).
Proof. induction l as [|a r IH]; cbn; [reflexivity|]. rewrite sumR_app, IH. reflexivity. Qed.

Lemma xsum_alts c l : idx c = alts_idx l -> xsum c = alts_sum (slice c) l.
Proof.
  intros E. unfold xsum, alts_sum. rewrite E. unfold alts_idx.
  rewrite map_flat_map', sumR_flat_map. f_equal. apply map_ext. intros [i n]. cbn [fst snd].
  rewrite map_repeat', sumR_repeat. reflexivity.
Qed.

Lemma closed_prims_alts c l : idx c = alts_idx l -> closed_prims c = closed_alts c l.
Proof.
  intros E. unfold closed_prims, closed_alts. rewrite (xsum_alts c l E), E. unfold alts_idx.
  rewrite map_flat_map'. apply flat_map_ext_in. intros [i n] _. cbn [fst snd]. rewrite map_repeat'. reflexivity.
Qed.

(** Every alternative of every primitive P derivable at S gets
    pmass * exp(x_P) / sum over the (P', alternative') derivable at S of exp(x_P'),
    variables and constants as in C19_closed_form; the converted grammar divides by 1 - delta. *)
Theorem closed_form_alts : forall c l, conf_ok c -> idx c = alts_idx l ->
  weights c = closed_alts c l ++ closed_vc c /\
  u_weights c = map (fun w => w / (1 - delta c)) (closed_alts c l ++ closed_vc c) /\
  sumR (closed_alts c l) = pmass c /\
  alts_sum (slice c) l = sumR (map (fun i => exp (nth i (slice c) 0)) (idx c)).
Proof.
  intros c l Hok E. rewrite <- (closed_prims_alts c l E). repeat split.
  - apply weights_closed; auto.
  - apply u_weights_closed; auto.
  - apply closed_prims_sum; auto.
  - symmetry. apply (xsum_alts c l E).
Qed.

(** non-vacuity: S -> + (two alternatives) | 1 | var0 over a slice of three
    entries, + at position 0, 1 at position 2 *)
Definition example_alts : list (nat * nat) := [(0%nat, 2%nat); (2%nat, 1%nat)].
Definition example_conf_alts : ntconf :=
  {| eps := eps7; vprob := 1 / 4; tvo := false; slice := [1; 7; -2]; idx := alts_idx example_alts; nv := 1; nc := 0 |}.
Example example_conf_alts_ok : conf_ok example_conf_alts /\ idx example_conf_alts = [0; 0; 2]%nat.
Proof.
  split; [|reflexivity]. apply conf_ok_no_tvo.
  - cbn; lra.
  - cbn; unfold eps7; lra.
  - cbn. repeat constructor.
  - left. discriminate.
  - reflexivity.
Qed.
Example example_alts_weight :
  nth 0 (weights example_conf_alts) 0 = (3 / 4) * exp 1 / (2 * exp 1 + exp (-2)) /\
  nth 3 (weights example_conf_alts) 0 = 1 / 4.
Proof.
  destruct (closed_form_alts example_conf_alts example_alts (proj1 example_conf_alts_ok) eq_refl) as (-> & _).
  unfold closed_alts, closed_vc, alts_sum, pmass, p0, vmass, eps_eff. cbn.
  pose proof (exp_pos 1); pose proof (exp_pos (-2)). split; field; lra.
Qed.

(** ---- start symbols ---- *)
Theorem start_softmax zs : zs <> [] ->
  map exp (start_tags zs) = softmax zs /\ normalise (map exp (start_tags zs)) = softmax zs /\
  sumR (softmax zs) = 1 /\ Forall (fun w => 0 < w) (softmax zs).
Proof.
  intros H. pose proof (start_tags_closed zs H) as E. pose proof (start_tags_sum zs H) as Hs.
  unfold softmax in *. repeat split.
  - exact E.
  - unfold normalise. rewrite Hs, E, map_map. apply map_ext. intros z. field.
    pose proof (sumR_exp_pos zs H). lra.
  - rewrite <- E. exact Hs.
  - rewrite <- E. apply Forall_exp_pos.
Qed.

(** ---- programs ---- *)
Lemma ufold_sum (tag : unt -> sym -> ualt -> R) d a :
  ufold (fun acc y s al => acc + tag y s al) a d = a + sumR (map (tag_of tag) d).
Proof.
  unfold ufold, tag_of. revert a; unfold sumR; induction d as [|st r IH]; intros a0; simpl; [lra|rewrite IH; lra].
Qed.

Lemma ufold_prod (w : unt -> sym -> ualt -> R) d a :
  ufold (fun acc y s al => acc * w y s al) a d = a * prodR (map (tag_of w) d).
Proof.
  unfold ufold, tag_of. revert a; unfold prodR; induction d as [|st r IH]; intros a0; simpl; [lra|rewrite IH; lra].
Qed.

Lemma uderivations_all_single tbl x p : uderivations_all tbl [x] p = uderivations_from tbl x p.
Proof. unfold uderivations_all. cbn. apply app_nil_r. Qed.

Section UProgramsProofs.
  Variable tbl : utable.

  Theorem ulog_probability_at_sum tag x p :
    ulog_probability_at tbl tag x p =
    option_map (fun d => sumR (map (tag_of tag) d)) (hd_error (uderivations_from tbl x p)).
  Proof.
    unfold ulog_probability_at, ureduce. rewrite uderivations_all_single.
    destruct (uderivations_from tbl x p) as [|d r]; cbn; [reflexivity|]. rewrite ufold_sum. f_equal. lra.
  Qed.

  Theorem uprobability_at_prod w x p :
    uprobability_at_R tbl w x p =
    if ucontains_at tbl x p then
      match uderivations_from tbl x p with d :: _ => prodR (map (tag_of w) d) | [] => 0 end
    else 0.
  Proof.
    unfold uprobability_at_R, ureduce. rewrite uderivations_all_single.
    destruct (ucontains_at tbl x p); [|reflexivity].
    destruct (uderivations_from tbl x p) as [|d r]; cbn; [reflexivity|]. rewrite ufold_prod. lra.
  Qed.

  Lemma prod_exp_div (tag : unt -> sym -> ualt -> R) (Zs : unt -> R) d :
    (forall y, Zs y <> 0) ->
    prodR (map (tag_of (fun y s a => exp (tag y s a) / Zs y)) d)
    = exp (sumR (map (tag_of tag) d)) / prodR (map (fun st => Zs (nt_of_step st)) d).
  Proof.
    intros Hz. rewrite exp_sumR, map_map. unfold prodR, tag_of, nt_of_step.
    induction d as [|st r IH]; simpl; [field; lra|].
    rewrite IH. field. split; auto.
    clear IH. induction r; simpl; [lra|]. apply Rmult_integral_contrapositive; auto.
  Qed.

  (** The program is derived by the start symbol x (the first one that contains
      it) with first derivation d (the only one when the grammar is
      unambiguous).  Then
        log_probability(p) = start tag of x + sum of the tags of the (S, P, alternative) steps of d,
      and in the grammar converted with exp and renormalised by Z(S) at every S
        probability(p) = exp(start tag of x) * prod over d of exp(tag) / Z(S). *)
  Theorem ulogprob_multi (stag : unt -> R) (tag : unt -> sym -> ualt -> R) (Zs : unt -> R) starts p x d rest :
    (forall y, Zs y <> 0) ->
    find (fun y => ucontains_at tbl y p) starts = Some x ->
    uderivations_from tbl x p = d :: rest ->
    ulog_probability tbl stag tag starts p = Some (stag x + sumR (map (tag_of tag) d)) /\
    uprobability_R tbl (fun y => exp (stag y)) (fun y s a => exp (tag y s a) / Zs y) starts p
    = exp (stag x + sumR (map (tag_of tag) d)) / prodR (map (fun st => Zs (nt_of_step st)) d) /\
    uprobability_at_R tbl (fun y s a => exp (tag y s a)) x p = exp (sumR (map (tag_of tag) d)) /\
    ulog_probability_at tbl tag x p = Some (sumR (map (tag_of tag) d)).
  Proof.
    intros Hz Hf Hd.
    assert (Hc : ucontains_at tbl x p = true) by (apply find_some in Hf; tauto).
    assert (Hat : ulog_probability_at tbl tag x p = Some (sumR (map (tag_of tag) d)))
      by (rewrite ulog_probability_at_sum, Hd; reflexivity).
    repeat split.
    - induction starts as [|y r IH]; cbn in *; [discriminate|].
      destruct (ucontains_at tbl y p) eqn:Ey.
      + injection Hf as ->. rewrite Hat. reflexivity.
      + apply IH; auto.
    - induction starts as [|y r IH]; cbn in *; [discriminate|].
      destruct (ucontains_at tbl y p) eqn:Ey.
      + injection Hf as ->. rewrite uprobability_at_prod, Hc, Hd, (prod_exp_div tag Zs d Hz), exp_plus.
        unfold Rdiv. ring.
      + apply IH; auto.
    - rewrite uprobability_at_prod, Hc, Hd, exp_sumR, map_map. reflexivity.
    - exact Hat.
  Qed.

  Lemma uprobability_R_find sw w starts p x :
    find (fun y => ucontains_at tbl y p) starts = Some x ->
    uprobability_R tbl sw w starts p = sw x * uprobability_at_R tbl w x p.
  Proof.
    induction starts as [|y r IH]; cbn; [discriminate|].
    destruct (ucontains_at tbl y p) eqn:Ey; [intros [= ->]; reflexivity | auto].
  Qed.

  (** without renormalisation: exp(log_probability(p)) = probability(p) in the grammar converted with exp *)
  Corollary uexp_log_probability (stag : unt -> R) (tag : unt -> sym -> ualt -> R) starts p x d rest :
    find (fun y => ucontains_at tbl y p) starts = Some x ->
    uderivations_from tbl x p = d :: rest ->
    option_map exp (ulog_probability tbl stag tag starts p)
    = Some (uprobability_R tbl (fun y => exp (stag y)) (fun y s a => exp (tag y s a)) starts p).
  Proof.
    intros Hf Hd.
    destruct (ulogprob_multi stag tag (fun _ => 1) starts p x d rest ltac:(intros; lra) Hf Hd) as (-> & _ & E & _).
    cbn. f_equal. rewrite (uprobability_R_find _ _ starts p x Hf), E, exp_plus. reflexivity.
  Qed.

  (** outside the language the probability is 0 *)
  Theorem uprobability_R_outside sw w starts p : ucontains tbl starts p = false -> uprobability_R tbl sw w starts p = 0.
  Proof.
    unfold ucontains. induction starts as [|y r IH]; cbn; [reflexivity|].
    destruct (ucontains_at tbl y p); cbn; [discriminate|auto].
  Qed.

  (** a program of the grammar (arities agreeing with the rules) has a deriving
      start symbol and a derivation: the statements above are not vacuous *)
  Theorem ulogprob_defined starts p :
    ucontains tbl starts p = true -> (forall y, In y starts -> shape_ok tbl y p = true) ->
    exists x d rest, find (fun y => ucontains_at tbl y p) starts = Some x /\ uderivations_from tbl x p = d :: rest.
  Proof.
    unfold ucontains. intros Hc Hs. apply existsb_exists in Hc as (y & Hy & Hc).
    destruct (find (fun y => ucontains_at tbl y p) starts) as [x|] eqn:Ef.
    - pose proof (find_some _ _ Ef) as [Hin Hx].
      destruct (member_has_derivation tbl x p (Hs x Hin) Hx) as (d & rest & Hd). eauto.
    - pose proof (find_none _ _ Ef y Hy) as Hn. cbn in Hn. congruence.
  Qed.
End UProgramsProofs.

(** the grammar of the escaped regression: (+ 1 var0) from its single start *)
Example example_logprob :
  forall stag tag,
    ulog_probability UEncExample.tbl stag tag [UEncExample.root] UEncExample.p1
    = Some (stag UEncExample.root
            + (tag UEncExample.root UEncExample.plus [UEncExample.C0; UEncExample.V1]
               + (tag UEncExample.C0 UEncExample.one [] + (tag UEncExample.V1 UEncExample.var0 [] + 0)))).
Proof.
  intros stag tag.
  assert (Hf : find (fun y => ucontains_at UEncExample.tbl y UEncExample.p1) [UEncExample.root] = Some UEncExample.root)
    by (vm_compute; reflexivity).
  destruct (ulogprob_multi UEncExample.tbl stag tag (fun _ => 1) [UEncExample.root] UEncExample.p1 UEncExample.root
              [(UEncExample.root, UEncExample.plus, [UEncExample.C0; UEncExample.V1]);
               (UEncExample.C0, UEncExample.one, []); (UEncExample.V1, UEncExample.var0, [])] []
              ltac:(intros; lra) Hf) as (-> & _).
  - vm_compute; reflexivity.
  - reflexivity.
Qed.

(** ---- statement used by Props/C19.v ---- *)
Lemma alts_nonvacuous :
  (conf_ok example_conf_alts /\ idx example_conf_alts = [0; 0; 2]%nat) /\
  nth 0 (weights example_conf_alts) 0 = (3 / 4) * exp 1 / (2 * exp 1 + exp (-2)) /\
  nth 3 (weights example_conf_alts) 0 = 1 / 4.
Proof. exact (conj example_conf_alts_ok example_alts_weight). Qed.
