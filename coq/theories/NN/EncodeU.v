(** Discrete part of UGrammarPredictorLayer (synth/nn/u_grammar_predictor.py) on
    unambiguous grammars given as rule tables of Gram/U.v: a rule S -> P has a
    LIST of alternatives (argument lists), a grammar has several start symbols.

    - [uderiv_rec]: UGrammar.__reduce_derivations_rec__ (u_grammar.py): the list
      of derivations of a program, each a list of steps (S, P, alternative) in
      pre-order together with the (information, next) pair reached; no
      membership or arity test; an unknown rule gives no derivation;
    - [ureduce]: UGrammar.reduce_derivations(reduce, init, program): one value
      per derivation, over all start symbols in turn;
    - the layout of the layer: one slice entry per (abstraction key, PRIMITIVE),
      shared by all the alternatives of the primitive; it is the layout of
      NN/Encode.v applied to the table with the alternatives forgotten
      ([det_view]), so the theorems of NN/EncodeProofs.v carry over;
    - [uencode]: the indices UGrammarPredictorLayer.encode sets (the reducer
      writes into one shared tensor for every derivation);
    - the abstraction functions on the wire form of the states (the generic
      encoder [enc] of harness/props/c04_impl.py).

    Executable and extracted (Run/C19.v entry 2).  Proofs: NN/EncodeUProofs.v. *)
From Coq Require Import ZArith NArith List Bool Arith.
From PS Require Import Base.ListX Base.Sexp Base.Ty Base.Value Base.Prog Gram.Det Gram.U NN.Encode.
Import ListNotations.

Definition ustep : Type := unt * sym * ualt.                     (* (S, P, v) handed to reduce *)
Definition upartial : Type := list ustep * (list unt * upos).     (* steps so far, (information, next) *)

(** the loop over the arguments: every possible so far is extended by every
    derivation of the argument from its (information, next) *)
Definition udthread (R : prog -> upos -> list unt -> list upartial) :
  list prog -> list upartial -> list upartial :=
  fix go (args : list prog) (possibles : list upartial) {struct args} : list upartial :=
    match args with
    | [] => possibles
    | a :: ar =>
      go ar (flat_map (fun pp : upartial =>
                         map (fun alt : upartial => (fst pp ++ fst alt, snd alt))
                             (R a (snd (snd pp)) (fst (snd pp)))) possibles)
    end.

Definition first_steps (info : list unt) (x : unt) (s : sym) (alts : list ualt) : list upartial :=
  map (fun alt => ([(x, s, alt)], uderive1 info alt)) alts.

Fixpoint uderiv_rec (tbl : utable) (p : prog) (here : upos) (info : list unt) {struct p} : list upartial :=
  match here with
  | UEnd => []                                   (* derive() of a non-terminal without rules: [] *)
  | UAt x =>
    match p with
    | PLeaf s =>
      match ualts_of tbl x s with
      | Some alts => first_steps info x s alts
      | None => []
      end
    | PFun f args =>
      match ualts_of tbl x f with
      | Some alts => udthread (fun a h i => uderiv_rec tbl a h i) args (first_steps info x f alts)
      | None => []
      end
    end
  end.

(** the derivations of p from one start symbol, from all start symbols *)
Definition uderivations_from (tbl : utable) (x : unt) (p : prog) : list (list ustep) :=
  map fst (uderiv_rec tbl p (UAt x) []).
Definition uderivations_all (tbl : utable) (starts : list unt) (p : prog) : list (list ustep) :=
  flat_map (fun x => uderivations_from tbl x p) starts.

Section UReduce.
  Context {T : Type}.
  Variable f : T -> unt -> sym -> ualt -> T.                      (* reduce(value, S, P, v) *)
  Definition ufold (init : T) (d : list ustep) : T :=
    fold_left (fun a st => f a (fst (fst st)) (snd (fst st)) (snd st)) d init.
  (** reduce_derivations(reduce, init, program, start = None): one value per derivation *)
  Definition ureduce (tbl : utable) (starts : list unt) (init : T) (p : prog) : list T :=
    map (ufold init) (uderivations_all tbl starts p).
End UReduce.

(** ---- the layout ---- *)
Definition nt_of_unt (x : unt) : nt := (fst x, snd x, L []).
Definition det_view (tbl : utable) : table :=
  map (fun xr : unt * list urule =>
         (nt_of_unt (fst xr), map (fun r : urule => (fst r, (@nil argnt, L []))) (snd xr))) tbl.

Section ULayout.
  Variable abs : unt -> akey.                                     (* the abstraction function *)
  Definition abs_nt (x : nt) : akey := abs (fst x).

  Definition ulayout (gs : list utable) : layout_t := layout abs_nt (map det_view gs).
  Definition uslices (gs : list utable) := slices abs_nt (map det_view gs).
  Definition uslice_size (gs : list utable) : nat := output_size abs_nt (map det_view gs).
  (** index of (S, P): the same for every alternative of P *)
  Definition uindex (gs : list utable) (x : unt) (s : sym) : option nat := index_in (ulayout gs) (abs x) s.

  (** all_starts_abs: the abstractions of the start symbols of all the grammars, first seen first *)
  Definition ustart_keys (starts : list unt) : list akey := start_keys abs_nt (map nt_of_unt starts).
  Definition uoutput_size (gs : list utable) (starts : list unt) : nat :=
    u_output_size abs_nt (map det_view gs) (map nt_of_unt starts).
  Definition ustart_index (gs : list utable) (starts : list unt) (x : unt) : option nat :=
    start_index abs_nt (map det_view gs) (map nt_of_unt starts) (nt_of_unt x).

  (** __reduce_encoder__ *)
  Definition umark (lay : layout_t) (acc : list nat) (x : unt) (s : sym) (_ : ualt) : list nat :=
    if is_prim s then
      match index_in lay (abs x) s with Some i => acc ++ [i] | None => acc end
    else acc.

  (** the indices encode sets to 1: the reducer runs over every derivation and
      writes into the same tensor *)
  Definition uencode (gs : list utable) (tbl : utable) (starts : list unt) (p : prog) : list nat :=
    concat (ureduce (umark (ulayout gs)) tbl starts [] p).
End ULayout.

(** ---- abstractions.py on the wire form of the states ----
    enc: None = [1], int = [0, n], tuple = [3, ...], NGram = [4, n, predecessors...],
    symbol = [5, s], type = [6, t] *)
Definition enc_none : sexp := L [A 1%Z].
Definition abs_presence_u (x : unt) : akey := enc_none.
(** the identity: enc((type, U)) *)
Definition abs_identity_u (x : unt) : akey := L [A 3%Z; L [A 6%Z; sexp_of_ty (fst x)]; snd x].
(** ucfg_bigram: U = (ngram, _), descend into first components until an NGram
    is found; its first predecessor, or None when it has none *)
Fixpoint find_ngram (fuel : nat) (s : sexp) : option sexp :=
  match fuel with
  | O => None
  | S k =>
    match s with
    | L (A 4%Z :: _ :: preds) => Some (match preds with pr :: _ => pr | [] => enc_none end)
    | L (A 3%Z :: first :: _) => find_ngram k first
    | _ => None
    end
  end.
Definition abs_bigram_u (x : unt) : akey :=
  match snd x with
  | L [A 3%Z; first; _] => match find_ngram 16 first with Some k => k | None => L [A (-1)%Z] end
  | _ => L [A (-1)%Z]
  end.

Definition uabs_by_id (n : nat) : unt -> akey :=
  match n with
  | 0 => abs_presence_u
  | 1 => abs_bigram_u
  | _ => abs_identity_u
  end.
