(** Proofs about NN/Encode.v: the generic simulation lemma for
    reduce_derivations, the layout is a bijection between the distinct
    (abstraction, primitive) pairs and [0, output_size), encode marks exactly
    the primitive rules of the derivation. *)
From Coq Require Import ZArith NArith List Bool Arith Lia Setoid Permutation.
From PS Require Import Base.ListX Base.Sexp Base.Ty Base.Value Base.Prog Gram.Det Gram.Cfg NN.Encode.
Import ListNotations.

(** ---- small list facts ---- *)
Lemma nt_eqb_spec a b : nt_eqb a b = true <-> a = b.
Proof.
  destruct a as [[t s] u], b as [[t' s'] u']; unfold nt_eqb; cbn.
  rewrite !andb_true_iff, ty_eqb_spec, !sexp_eqb_spec.
  split; [intros [[-> ->] ->]; reflexivity | intros E; inversion E; auto].
Qed.

Lemma alookup_In {K V} (eqb : K -> K -> bool) k (l : list (K * V)) v :
  alookup eqb k l = Some v -> exists k', In (k', v) l /\ eqb k k' = true.
Proof.
  induction l as [|[k' v'] r IH]; cbn; [discriminate|].
  destruct (eqb k k') eqn:E.
  - intros [= ->]; exists k'; auto.
  - intros H; destruct (IH H) as (k2 & Hin & He); exists k2; auto.
Qed.

Section Dedup.
  Context {X : Type} (eqb : X -> X -> bool).
  Hypothesis eqb_spec : forall a b, eqb a b = true <-> a = b.

  Lemma In_dedupf l x : In x (dedupf eqb l) <-> In x l.
  Proof.
    induction l as [|y r IH]; cbn; [tauto|].
    rewrite filter_In, IH, negb_true_iff.
    split.
    - intros [E|[H _]]; auto.
    - intros [E|H]; auto.
      destruct (eqb y x) eqn:E; [left; apply eqb_spec; auto | right; auto].
  Qed.

  Lemma NoDup_filter' (f : X -> bool) l : NoDup l -> NoDup (filter f l).
  Proof.
    induction 1 as [|x r Hn Hr IH]; cbn; [constructor|].
    destruct (f x); auto. constructor; auto. rewrite filter_In; tauto.
  Qed.

  Lemma NoDup_dedupf l : NoDup (dedupf eqb l).
  Proof.
    induction l as [|y r IH]; cbn; constructor.
    - rewrite filter_In, negb_true_iff. intros [_ H].
      assert (eqb y y = true) by (apply eqb_spec; auto). congruence.
    - apply NoDup_filter'; auto.
  Qed.

  Lemma pos_of_nth l x i : pos_of eqb x l = Some i -> nth_error l i = Some x.
  Proof.
    revert i; induction l as [|y r IH]; cbn; intros i; [discriminate|].
    destruct (eqb x y) eqn:E.
    - intros [= <-]; apply eqb_spec in E; subst; reflexivity.
    - destruct (pos_of eqb x r) as [j|]; cbn; [|discriminate].
      intros [= <-]; cbn; auto.
  Qed.

  Lemma nth_pos_of l x i : NoDup l -> nth_error l i = Some x -> pos_of eqb x l = Some i.
  Proof.
    intros Hn; revert i; induction Hn as [|y r Hy Hr IH]; intros [|i]; cbn; try discriminate.
    - intros [= ->]. assert (eqb x x = true) as -> by (apply eqb_spec; auto). reflexivity.
    - intros H. destruct (eqb x y) eqn:E.
      + apply eqb_spec in E; subst. apply nth_error_In in H; contradiction.
      + rewrite (IH i H); reflexivity.
  Qed.

  Lemma pos_of_In l x : In x l -> exists i, pos_of eqb x l = Some i.
  Proof.
    induction l as [|y r IH]; cbn; [tauto|].
    intros H. destruct (eqb x y) eqn:E; [eauto|].
    destruct H as [->|H].
    - assert (eqb x x = true) by (apply eqb_spec; auto); congruence.
    - destruct (IH H) as [i ->]; cbn; eauto.
  Qed.
End Dedup.

(** ---- the simulation lemma for reduce_derivations ---- *)
Section Sim.
  Context {T1 T2 : Type}.
  Variable f1 : T1 -> nt -> sym -> T1.
  Variable f2 : T2 -> nt -> sym -> T2.
  Variable R : T1 -> T2 -> Prop.
  Variable tbl : table.
  Hypothesis HR : forall a b x s r, rule_of tbl x s = Some r -> R a b -> R (f1 a x s) (f2 b x s).

  Definition rel_res (o1 : option (T1 * (list argnt * pos))) (o2 : option (T2 * (list argnt * pos))) : Prop :=
    match o1, o2 with
    | Some (a, st1), Some (b, st2) => R a b /\ st1 = st2
    | None, None => True
    | _, _ => False
    end.

  Lemma reduce_rec_sim : forall p a b here info,
      R a b -> rel_res (reduce_rec f1 tbl p a here info) (reduce_rec f2 tbl p b here info).
  Proof.
    induction p as [s|g args IH] using prog_ind'; intros a b [x|] info Hab; cbn; auto.
    - destruct (rule_of tbl x s) as [r|] eqn:E; cbn; eauto.
    - destruct (rule_of tbl x g) as [r|] eqn:E; cbn; auto.
      assert (Hst : R (fst (f1 a x g, derive info r)) (fst (f2 b x g, derive info r))) by (cbn; eauto).
      assert (Hsn : snd (f1 a x g, derive info r) = snd (f2 b x g, derive info r)) by reflexivity.
      revert Hst Hsn.
      generalize (f1 a x g, derive info r) as st1. generalize (f2 b x g, derive info r) as st2.
      induction IH as [|a0 ar Ha _ IHar]; intros st2 st1 Hst Hsn.
      + destruct st1, st2; cbn in *; auto.
      + rewrite Hsn.
        specialize (Ha (fst st1) (fst st2) (snd (snd st2)) (fst (snd st2)) Hst).
        destruct (reduce_rec f1 tbl a0 (fst st1) (snd (snd st2)) (fst (snd st2))) as [[a1 s1]|],
                 (reduce_rec f2 tbl a0 (fst st2) (snd (snd st2)) (fst (snd st2))) as [[a2 s2]|];
          cbn in Ha; try contradiction; auto.
        destruct Ha as [Ha ->]. apply IHar; auto.
  Qed.

  Lemma reduce_derivations_sim start a b p :
    R a b ->
    match reduce_derivations f1 tbl start a p, reduce_derivations f2 tbl start b p with
    | Some a', Some b' => R a' b'
    | None, None => True
    | _, _ => False
    end.
  Proof.
    intros Hab. unfold reduce_derivations.
    pose proof (reduce_rec_sim p a b (At start) [] Hab) as H.
    destruct (reduce_rec f1 tbl p a (At start) []) as [[a1 s1]|],
             (reduce_rec f2 tbl p b (At start) []) as [[a2 s2]|]; cbn in H; try contradiction; tauto.
  Qed.
End Sim.

(** Any reduction is the left fold of its operator over the derivation:
    reduce is called once per rule of the derivation, in pre-order, and only
    on rules of the table. *)
Theorem reduce_is_fold {T} (f : T -> nt -> sym -> T) tbl start init p :
  reduce_derivations f tbl start init p =
  option_map (fun d => fold_left (fun a xs => f a (fst xs) (snd xs)) d init) (derivation tbl start p).
Proof.
  unfold derivation.
  pose proof (reduce_derivations_sim snoc_pair f
                (fun d a => a = fold_left (fun a xs => f a (fst xs) (snd xs)) d init) tbl) as H.
  specialize (H ltac:(intros a b x s r _ ->; unfold snoc_pair; rewrite fold_left_app; reflexivity)
                start [] init p eq_refl).
  destruct (reduce_derivations snoc_pair tbl start [] p), (reduce_derivations f tbl start init p);
    cbn; try contradiction; congruence.
Qed.

Theorem derivation_rules tbl start p d :
  derivation tbl start p = Some d -> Forall (fun xs => rule_of tbl (fst xs) (snd xs) <> None) d.
Proof.
  unfold derivation. intros Hd.
  pose proof (reduce_derivations_sim snoc_pair snoc_pair
                (fun d _ => Forall (fun xs => rule_of tbl (fst xs) (snd xs) <> None) d) tbl) as H.
  specialize (H ltac:(intros a b x s r Hr Ha; unfold snoc_pair; apply Forall_app; split; auto;
                      constructor; auto; cbn; congruence)
                start [] [] p (Forall_nil _)).
  rewrite Hd in H. exact H.
Qed.

(** ---- the layout ---- *)
Definition flatten (lay : layout_t) : list (akey * sym) :=
  flat_map (fun kp : akey * list sym => map (pair (fst kp)) (snd kp)) lay.

Definition wf_layout (lay : layout_t) : Prop :=
  NoDup (map fst lay) /\ Forall (fun kp : akey * list sym => NoDup (snd kp)) lay.

Lemma flatten_length lay : length (flatten lay) = size_of lay.
Proof.
  unfold size_of, flatten; induction lay as [|[k ps] r IH]; cbn; auto.
  rewrite app_length, map_length; cbn in IH; rewrite IH; reflexivity.
Qed.

Lemma In_flatten lay k s : In (k, s) (flatten lay) <-> exists ps, In (k, ps) lay /\ In s ps.
Proof.
  unfold flatten; rewrite in_flat_map; split.
  - intros ([k' ps] & Hin & Hm); cbn in Hm. apply in_map_iff in Hm as (s' & [= <- <-] & Hs); eauto.
  - intros (ps & Hin & Hs). exists (k, ps); split; auto. cbn; apply in_map; auto.
Qed.

Lemma index_in_nth lay k s i :
  wf_layout lay -> (index_in lay k s = Some i <-> nth_error (flatten lay) i = Some (k, s)).
Proof.
  intros [Hk Hp]; revert i; induction lay as [|[k' ps] r IH]; intros i; cbn.
  - destruct i; split; discriminate.
  - inversion Hk as [|? ? Hk1 Hk2]; inversion Hp as [|? ? Hp1 Hp2]; subst; cbn in *.
    specialize (IH Hk2 Hp2).
    destruct (sexp_eqb k k') eqn:E.
    + apply sexp_eqb_spec in E; subst k'. split.
      * intros H. pose proof (pos_of_nth sym_eqb sym_eqb_spec _ _ _ H) as Hn.
        rewrite nth_error_app1 by (rewrite map_length; apply nth_error_Some; congruence).
        rewrite nth_error_map, Hn; reflexivity.
      * intros H. destruct (lt_dec i (length ps)) as [Hlt|Hge].
        -- rewrite nth_error_app1 in H by (rewrite map_length; auto).
           rewrite nth_error_map in H. destruct (nth_error ps i) as [s'|] eqn:En; cbn in H; [|discriminate].
           injection H as <-. apply (nth_pos_of sym_eqb sym_eqb_spec); auto.
        -- rewrite nth_error_app2 in H by (rewrite map_length; lia).
           apply nth_error_In, In_flatten in H as (ps' & Hin & _).
           exfalso; apply Hk1. apply (in_map fst) in Hin; exact Hin.
    + assert (Hne : k <> k') by (intros ->; rewrite (proj2 (sexp_eqb_spec k' k') eq_refl) in E; discriminate).
      split.
      * destruct (index_in r k s) as [j|] eqn:Ej; cbn; [|discriminate].
        intros [= <-]. rewrite nth_error_app2 by (rewrite map_length; lia).
        rewrite map_length. replace (length ps + j - length ps) with j by lia. apply IH; reflexivity.
      * intros H. destruct (lt_dec i (length ps)) as [Hlt|Hge].
        -- rewrite nth_error_app1 in H by (rewrite map_length; auto).
           rewrite nth_error_map in H. destruct (nth_error ps i); cbn in H; [|discriminate].
           injection H as E1 _; congruence.
        -- rewrite nth_error_app2 in H by (rewrite map_length; lia).
           rewrite map_length in H. apply IH in H. rewrite H; cbn. f_equal; lia.
Qed.

Lemma NoDup_flatten lay : wf_layout lay -> NoDup (flatten lay).
Proof.
  intros Hwf. apply NoDup_nth_error. intros i j Hi E.
  destruct (nth_error (flatten lay) i) as [[k s]|] eqn:Ei; [|apply nth_error_Some in Hi; contradiction].
  symmetry in E.
  apply (index_in_nth lay k s i Hwf) in Ei. apply (index_in_nth lay k s j Hwf) in E. congruence.
Qed.

Section LayoutProofs.
  Variable abs : nt -> akey.

  Lemma wf_layout_layout gs : wf_layout (layout abs gs).
  Proof.
    split.
    - unfold layout. rewrite map_map; cbn. rewrite map_id. apply NoDup_dedupf, sexp_eqb_spec.
    - apply Forall_forall. intros [k ps] H. unfold layout in H.
      apply in_map_iff in H as (k' & [= <- <-] & _). apply NoDup_dedupf, sym_eqb_spec.
  Qed.

  Lemma raw_pairs_key gs k s : In (k, s) (raw_pairs abs gs) -> In k (raw_keys abs gs).
  Proof.
    unfold raw_pairs, raw_keys. rewrite !in_flat_map. intros (g & Hg & H).
    rewrite in_flat_map in H. destruct H as (xr & Hxr & H). unfold nt_pairs in H.
    apply in_map_iff in H as (s' & [= <- <-] & _). exists g; split; auto.
    apply in_map_iff. exists xr; auto.
  Qed.

  Lemma raw_pairs_prim gs k s : In (k, s) (raw_pairs abs gs) -> is_prim s = true.
  Proof.
    unfold raw_pairs. rewrite in_flat_map. intros (g & Hg & H).
    rewrite in_flat_map in H. destruct H as (xr & Hxr & H). unfold nt_pairs in H.
    apply in_map_iff in H as (s' & [= _ <-] & H). apply filter_In in H; tauto.
  Qed.

  Lemma In_flatten_layout gs k s : In (k, s) (flatten (layout abs gs)) <-> In (k, s) (raw_pairs abs gs).
  Proof.
    rewrite In_flatten. split.
    - intros (ps & Hin & Hs). unfold layout in Hin.
      apply in_map_iff in Hin as (k' & [= -> <-] & Hk). unfold prims_of in Hs.
      rewrite (In_dedupf sym_eqb sym_eqb_spec) in Hs.
      apply in_map_iff in Hs as ([k2 s2] & <- & H2). apply filter_In in H2 as [H2 E]. cbn in E.
      apply sexp_eqb_spec in E; subst. auto.
    - intros H. exists (prims_of abs gs k). split.
      + unfold layout. apply in_map_iff. exists k; split; auto. unfold keys.
        apply (In_dedupf sexp_eqb sexp_eqb_spec). apply raw_pairs_key with s; auto.
      + unfold prims_of. apply (In_dedupf sym_eqb sym_eqb_spec). apply in_map_iff. exists (k, s). split; auto.
        apply filter_In; split; auto. cbn. apply sexp_eqb_spec; auto.
  Qed.

  (** index_in is the position in a duplicate-free enumeration of the pairs *)
  Lemma index_layout_nth gs k s i :
    index_in (layout abs gs) k s = Some i <-> nth_error (flatten (layout abs gs)) i = Some (k, s).
  Proof. apply index_in_nth, wf_layout_layout. Qed.

  Theorem index_injective gs k s k' s' i :
    index_in (layout abs gs) k s = Some i -> index_in (layout abs gs) k' s' = Some i -> k = k' /\ s = s'.
  Proof. rewrite !index_layout_nth. intros H1 H2. rewrite H1 in H2. injection H2; auto. Qed.

  Theorem index_range gs k s i : index_in (layout abs gs) k s = Some i -> i < output_size abs gs.
  Proof.
    rewrite index_layout_nth. intros H. unfold output_size. rewrite <- flatten_length.
    apply nth_error_Some; congruence.
  Qed.

  Theorem index_defined gs k s :
    (exists i, index_in (layout abs gs) k s = Some i) <-> In (k, s) (raw_pairs abs gs).
  Proof.
    rewrite <- In_flatten_layout. split.
    - intros [i H]. apply index_layout_nth in H. eapply nth_error_In; eauto.
    - intros H. apply In_nth_error in H as [i H]. exists i. apply index_layout_nth; auto.
  Qed.

  Theorem index_onto gs i : i < output_size abs gs -> exists k s, index_in (layout abs gs) k s = Some i.
  Proof.
    unfold output_size. rewrite <- flatten_length. intros H.
    destruct (nth_error (flatten (layout abs gs)) i) as [[k s]|] eqn:E.
    - exists k, s. apply index_layout_nth; auto.
    - apply nth_error_None in E. lia.
  Qed.

  Theorem index_only_primitives gs k s : is_prim s = false -> index_in (layout abs gs) k s = None.
  Proof.
    intros Hs. destruct (index_in (layout abs gs) k s) as [i|] eqn:E; auto.
    assert (H : In (k, s) (raw_pairs abs gs)) by (apply index_defined; eauto).
    apply raw_pairs_prim in H. congruence.
  Qed.

  (** the output size is the number of distinct (abstraction, primitive) pairs *)
  Theorem output_size_distinct gs (l : list (akey * sym)) :
    NoDup l -> (forall ks, In ks l <-> In ks (raw_pairs abs gs)) -> output_size abs gs = length l.
  Proof.
    intros Hn Hl. unfold output_size. rewrite <- flatten_length.
    apply Permutation_length, NoDup_Permutation; auto.
    - apply NoDup_flatten, wf_layout_layout.
    - intros [k s]. rewrite In_flatten_layout, Hl. tauto.
  Qed.

  (** slices: contiguous, in order, covering [0, output_size) *)
  Lemma slices_from_spec lay cur :
    map (fun sl : akey * (nat * nat) * list sym => (fst (fst sl), snd sl)) (slices_from cur lay) = lay /\
    (forall k st len ps, In (k, (st, len), ps) (slices_from cur lay) -> len = length ps /\ cur <= st /\ st + len <= cur + size_of lay) /\
    (forall k st len ps s j, In (k, (st, len), ps) (slices_from cur lay) -> NoDup (map fst lay) ->
                             pos_of sym_eqb s ps = Some j -> index_in lay k s = Some (st + j - cur)).
  Proof.
    revert cur; induction lay as [|[k0 ps0] r IH]; intros cur; cbn; [repeat split; intros; try contradiction|].
    destruct (IH (cur + length ps0)) as (IH1 & IH2 & IH3). repeat split.
    - cbn; rewrite IH1; reflexivity.
    - destruct H as [[= <- <- <- <-]|H]; auto. apply IH2 in H; tauto.
    - destruct H as [[= <- <- <- <-]|H]; unfold size_of in *; cbn; [lia|]. apply IH2 in H; lia.
    - destruct H as [[= <- <- <- <-]|H]; unfold size_of in *; cbn; [lia|]. apply IH2 in H; cbn in H; lia.
    - intros k st len ps s j H Hn Hp. inversion Hn as [|? ? Hn1 Hn2]; subst.
      destruct H as [[= <- <- <- <-]|H].
      + rewrite (proj2 (sexp_eqb_spec k0 k0) eq_refl). rewrite Hp. f_equal; lia.
      + assert (Hk : In k (map fst r)).
        { rewrite <- IH1. rewrite map_map; cbn. apply in_map_iff. exists (k, (st, len), ps); auto. }
        destruct (sexp_eqb k k0) eqn:E; [apply sexp_eqb_spec in E; subst; contradiction|].
        rewrite (IH3 k st len ps s j H Hn2 Hp); cbn. apply IH2 in H. f_equal; lia.
  Qed.

  (** ---- encode ---- *)
  Definition marks_of (lay : layout_t) (d : list (nt * sym)) : list nat :=
    flat_map (fun xs : nt * sym =>
                if is_prim (snd xs) then
                  match index_in lay (abs (fst xs)) (snd xs) with Some i => [i] | None => [] end
                else []) d.

  Lemma encode_marks gs tbl start p :
    encode abs gs tbl start p = option_map (marks_of (layout abs gs)) (derivation tbl start p).
  Proof.
    unfold encode. rewrite reduce_is_fold. destruct (derivation tbl start p) as [d|]; cbn; auto. f_equal.
    assert (H : forall acc, fold_left (fun a xs => mark abs (layout abs gs) a (fst xs) (snd xs)) d acc
                            = acc ++ marks_of (layout abs gs) d).
    { induction d as [|[x s] r IH]; intros acc; cbn; [rewrite app_nil_r; auto|].
      rewrite IH. unfold mark. destruct (is_prim s); cbn; auto.
      destruct (index_in (layout abs gs) (abs x) s); cbn; auto. rewrite <- app_assoc; reflexivity. }
    apply (H []).
  Qed.

  Lemma rule_in_layer gs tbl x s r :
    In tbl gs -> rule_of tbl x s = Some r -> is_prim s = true -> In (abs x, s) (raw_pairs abs gs).
  Proof.
    unfold rule_of, rules_of. destruct (alookup nt_eqb x tbl) as [rs|] eqn:E; [|discriminate]. intros Hg Hr Hp.
    apply alookup_In in E as (x' & Hin & Ex). apply nt_eqb_spec in Ex; subst x'.
    apply alookup_In in Hr as (s' & Hin2 & Es). apply sym_eqb_spec in Es; subst s'.
    unfold raw_pairs. apply in_flat_map. exists tbl; split; auto. apply in_flat_map. exists (x, rs); split; auto.
    unfold nt_pairs; cbn. apply in_map. apply filter_In; split; auto. apply in_map_iff. exists (s, r); auto.
  Qed.

  (** encode marks exactly the primitive rules of the derivation: every
      primitive rule (S, P) of the derivation has an index (no KeyError) and is
      marked, nothing else is; variables and constants have no index at all. *)
  Theorem encode_exact gs tbl start p d :
    In tbl gs -> derivation tbl start p = Some d ->
    exists m, encode abs gs tbl start p = Some m /\
      (forall i, In i m <-> exists x s, In (x, s) d /\ is_prim s = true /\
                                         index_in (layout abs gs) (abs x) s = Some i) /\
      (forall x s, In (x, s) d -> is_prim s = true ->
                   exists i, index_in (layout abs gs) (abs x) s = Some i /\ In i m) /\
      (forall x s, In (x, s) d -> is_prim s = false -> index_in (layout abs gs) (abs x) s = None).
  Proof.
    intros Hg Hd. exists (marks_of (layout abs gs) d). rewrite encode_marks, Hd; cbn.
    assert (Hiff : forall i, In i (marks_of (layout abs gs) d) <->
                             exists x s, In (x, s) d /\ is_prim s = true /\
                                         index_in (layout abs gs) (abs x) s = Some i).
    { intros i. unfold marks_of. rewrite in_flat_map. split.
      - intros ([x s] & Hin & H); cbn in H. destruct (is_prim s) eqn:Ep; [|contradiction].
        destruct (index_in (layout abs gs) (abs x) s) as [j|] eqn:Ej; [|contradiction].
        destruct H as [->|[]]. exists x, s; auto.
      - intros (x & s & Hin & Hp & Hi). exists (x, s); split; auto. cbn. rewrite Hp, Hi. left; auto. }
    repeat split; auto.
    - apply Hiff.
    - apply Hiff.
    - intros x s Hin Hp.
      pose proof (derivation_rules _ _ _ _ Hd) as Hr. rewrite Forall_forall in Hr. specialize (Hr _ Hin); cbn in Hr.
      destruct (rule_of tbl x s) as [r|] eqn:Er; [|congruence].
      destruct (proj2 (index_defined gs (abs x) s) (rule_in_layer gs tbl x s r Hg Er Hp)) as [i Hi].
      exists i; split; auto. apply Hiff. exists x, s; auto.
    - intros x s _ Hp. apply index_only_primitives; auto.
  Qed.

  Theorem encode_vec_spec gs tbl start p m :
    encode abs gs tbl start p = Some m ->
    exists v, encode_vec abs gs tbl start p = Some v /\ length v = output_size abs gs /\
              forall i, i < output_size abs gs -> (nth_error v i = Some true <-> In i m).
  Proof.
    intros Hm. unfold encode_vec. rewrite Hm. eexists; split; [reflexivity|]. split.
    - rewrite map_length, seq_length; reflexivity.
    - intros i Hi. rewrite nth_error_map.
      rewrite (nth_error_nth' (seq 0 (output_size abs gs)) 0) by (rewrite seq_length; auto).
      rewrite seq_nth by auto. cbn.
      rewrite <- (memb_spec Nat.eqb Nat.eqb_eq i m).
      split; [intros [= ->]; reflexivity | intros ->; reflexivity].
  Qed.

  (** U layers: start entries come after all slices, one per distinct start abstraction *)
  Theorem start_index_spec gs starts x i :
    start_index abs gs starts x = Some i ->
    output_size abs gs <= i < u_output_size abs gs starts /\
    nth_error (start_keys abs starts) (i - output_size abs gs) = Some (abs x).
  Proof.
    unfold start_index, u_output_size. destruct (pos_of sexp_eqb (abs x) (start_keys abs starts)) as [j|] eqn:E; [|discriminate].
    cbn. intros [= <-]. apply (pos_of_nth sexp_eqb sexp_eqb_spec) in E.
    replace (output_size abs gs + j - output_size abs gs) with j by lia. split; auto.
    assert (j < length (start_keys abs starts)) by (apply (proj1 (nth_error_Some _ _)); unfold akey in *; congruence). lia.
  Qed.

  Theorem start_index_defined gs starts x : In x starts -> exists i, start_index abs gs starts x = Some i.
  Proof.
    intros H. unfold start_index.
    destruct (pos_of_In sexp_eqb sexp_eqb_spec (start_keys abs starts) (abs x)) as [j ->]; cbn; eauto.
    unfold start_keys. apply (In_dedupf sexp_eqb sexp_eqb_spec). apply in_map; auto.
  Qed.
End LayoutProofs.

(** ---- a concrete instance (sanity of the definitions and of extraction):
    DSL {+ : int -> int -> int, 1 : int}, request int -> int, depth 3, bigram
    abstraction; program (+ var0 (+ 1 var0)) ---- *)
Definition ex_int := TPrim 0%N.
Definition ex_plus := SPrim 100%N (TArrow ex_int (TArrow ex_int ex_int)).
Definition ex_one := SPrim 101%N ex_int.
Definition ex_params : params :=
  {| dsl := [(100%N, TArrow ex_int (TArrow ex_int ex_int)); (101%N, ex_int)]; forbidden := [];
     request := TArrow ex_int ex_int; max_depth := 3; min_var := 1; n_gram := 2; const_types := [] |}.
Definition ex_tbl := table_of_cfg ex_params.
Definition ex_prog := PFun ex_plus [PLeaf (SVar 0 ex_int); PFun ex_plus [PLeaf ex_one; PLeaf (SVar 0 ex_int)]].

Example ex_encode : encode abs_bigram [ex_tbl] ex_tbl (start_of_cfg ex_params) ex_prog = Some [1; 5; 2]%nat.
Proof. vm_compute. reflexivity. Qed.
Example ex_sizes :
  (output_size abs_bigram [ex_tbl], output_size abs_presence [ex_tbl], output_size abs_identity [ex_tbl]) = (6, 2, 8)%nat.
Proof. vm_compute. reflexivity. Qed.
Example ex_derivation_length :
  option_map (@length _) (derivation ex_tbl (start_of_cfg ex_params) ex_prog) = Some 5%nat.
Proof. vm_compute. reflexivity. Qed.
Example ex_vec : encode_vec abs_bigram [ex_tbl] ex_tbl (start_of_cfg ex_params) ex_prog
                 = Some [false; true; true; false; false; true].
Proof. vm_compute. reflexivity. Qed.

(** ---- every program of the grammar (DetGrammar.__contains__, Gram/Det.v) has a
    derivation: the theorems about reduce_derivations apply to the whole language ---- *)
Section Defined.
  Context {T : Type} (f : T -> nt -> sym -> T) (tbl : table).

  Lemma contains_rec_reduce : forall p here info st acc,
      Det.contains_rec tbl p here info = Some st ->
      exists a, reduce_rec f tbl p acc here info = Some (a, st).
  Proof.
    induction p as [s|g args IH] using prog_ind'; intros [x|] info st acc; cbn; try discriminate.
    - destruct (rule_of tbl x s) as [r|]; [|discriminate].
      destruct (Nat.eqb (length (fst r)) 0); [|discriminate]. intros [= <-]. eauto.
    - destruct (rule_of tbl x g) as [r|]; [|discriminate].
      destruct (Nat.eqb (length (fst r)) (length args)); [|discriminate].
      generalize (derive info r) as st0. generalize (f acc x g) as a0.
      induction IH as [|a1 ar Ha _ IHar]; intros a0 st0 H.
      + injection H as <-. eauto.
      + cbn [fst snd].
        destruct (Det.contains_rec tbl a1 (snd st0) (fst st0)) as [st1|] eqn:E; [|discriminate].
        destruct (Ha _ _ _ a0 E) as [a2 ->]. apply IHar; auto.
  Qed.
End Defined.

Theorem derivation_defined tbl start p :
  Det.contains tbl start p = true -> exists d, derivation tbl start p = Some d.
Proof.
  unfold Det.contains, derivation, reduce_derivations.
  destruct (Det.contains_rec tbl p (At start) []) as [st|] eqn:E; [|discriminate]. intros _.
  destruct (contains_rec_reduce snoc_pair tbl p _ _ st [] E) as [a ->]. eauto.
Qed.

(** ---- statements used by Props/C19.v ---- *)
Lemma layout_bijection : forall (abs : nt -> akey) gs,
  (forall k s k' s' i, index_in (layout abs gs) k s = Some i -> index_in (layout abs gs) k' s' = Some i ->
                       k = k' /\ s = s') /\
  (forall k s i, index_in (layout abs gs) k s = Some i -> (i < output_size abs gs)%nat) /\
  (forall i, (i < output_size abs gs)%nat -> exists k s, index_in (layout abs gs) k s = Some i) /\
  (forall k s, (exists i, index_in (layout abs gs) k s = Some i) <-> In (k, s) (raw_pairs abs gs)) /\
  (forall l, NoDup l -> (forall ks, In ks l <-> In ks (raw_pairs abs gs)) -> output_size abs gs = length l).
Proof.
  intros abs gs. repeat split.
  - eapply index_injective; eauto.
  - eapply index_injective; eauto.
  - apply index_range.
  - apply index_onto.
  - apply index_defined.
  - apply index_defined.
  - apply output_size_distinct.
Qed.

Lemma start_entries : forall (abs : nt -> akey) gs starts x,
  In x starts ->
  exists i, start_index abs gs starts x = Some i /\
            (output_size abs gs <= i < u_output_size abs gs starts)%nat /\
            nth_error (start_keys abs starts) (i - output_size abs gs) = Some (abs x).
Proof.
  intros abs gs starts x H. destruct (start_index_defined abs gs starts x H) as [i Hi].
  exists i. split; auto. apply start_index_spec; auto.
Qed.
