Require Extraction.
Require ExtrOcamlBasic.
From PS Require Run.C14.
Extraction "model.ml" PS.Run.C14.run_case.
