Require Extraction.
Require ExtrOcamlBasic.
From PS Require Run.C08.
Extraction "model.ml" PS.Run.C08.run_case.
