Require Extraction.
Require ExtrOcamlBasic.
From PS Require Run.Enum.
Extraction "model.ml" PS.Run.Enum.run_case.
