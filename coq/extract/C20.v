Require Extraction.
Require ExtrOcamlBasic.
From PS Require Run.C20.
Extraction "model.ml" PS.Run.C20.run_case.
