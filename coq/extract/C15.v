Require Extraction.
Require ExtrOcamlBasic.
From PS Require Run.C15.
Extraction "model.ml" PS.Run.C15.run_case.
