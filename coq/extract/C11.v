Require Extraction.
Require ExtrOcamlBasic.
From PS Require Run.C11.
Extraction "model.ml" PS.Run.C11.run_case.
