Require Extraction.
Require ExtrOcamlBasic.
From PS Require Run.C10.
Extraction "model.ml" PS.Run.C10.run_case.
