Require Extraction.
Require ExtrOcamlBasic.
From PS Require Run.C16.
Extraction "model.ml" PS.Run.C16.run_case.
