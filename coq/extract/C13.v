Require Extraction.
Require ExtrOcamlBasic.
From PS Require Run.C13.
Extraction "model.ml" PS.Run.C13.run_case.
