Require Extraction.
Require ExtrOcamlBasic.
From PS Require Run.C01.
Extraction "model.ml" PS.Run.C01.run_case.
