Require Extraction.
Require ExtrOcamlBasic.
From PS Require Run.C18.
Extraction "model.ml" PS.Run.C18.run_case.
