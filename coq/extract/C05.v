Require Extraction.
Require ExtrOcamlBasic.
From PS Require Run.C05.
Extraction "model.ml" PS.Run.C05.run_case.
