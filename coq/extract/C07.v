Require Extraction.
Require ExtrOcamlBasic.
From PS Require Run.C07.
Extraction "model.ml" PS.Run.C07.run_case.
