Require Extraction.
Require ExtrOcamlBasic.
From PS Require Run.C17.
Extraction "model.ml" PS.Run.C17.run_case.
