Require Extraction.
Require ExtrOcamlBasic.
From PS Require Run.C04.
Extraction "model.ml" PS.Run.C04.run_case.
