Require Extraction.
Require ExtrOcamlBasic.
From PS Require Run.C06.
Extraction "model.ml" PS.Run.C06.run_case.
