Require Extraction.
Require ExtrOcamlBasic.
From PS Require Run.C09.
Extraction "model.ml" PS.Run.C09.run_case.
