Require Extraction.
Require ExtrOcamlBasic.
From PS Require Run.C19.
Extraction "model.ml" PS.Run.C19.run_case.
